#!/bin/sh
# tools/arena_seeds.sh <arena-name> [ID...]   like run_seeds.sh, but inside /tmp/arena/<arena-name> (see arena.sh):
# applies each stored seed to the arena's repo worktree, runs the matching quick check(s) of the arena's copy of
# the machinery, reverts.  One line per (seed, check).  /repo is never touched.
A=/tmp/arena/$1; shift
cd $A/verif || exit 2
IDS="$@"; [ -z "$IDS" ] && IDS=$(ls seeded | grep '^C')
for ID in $IDS; do
  P=seeded/$ID/patch.diff; [ -f seeded/$ID/patch.rebased.diff ] && P=seeded/$ID/patch.rebased.diff
  if ! git -C $A/repo apply --check $A/verif/$P 2>/dev/null; then echo "$ID patch-does-not-apply"; continue; fi
  git -C $A/repo apply $A/verif/$P
  CHECKS=$(echo $ID | cut -c1-3)
  [ -f seeded/$ID/also.txt ] && CHECKS="$(echo $ID | cut -c1-3) $(cat seeded/$ID/also.txt)"
  for C in $CHECKS; do
    ./check $C quick > $A/run_seed.$ID.$C.out 2>&1; RC=$?
    KEY=$(grep -A1 "^VIOLATION" $A/run_seed.$ID.$C.out | grep -m1 "key=" | sed 's/ occurrences.*//; s/^ *//')
    echo "$ID check=$C exit=$RC $KEY"
  done
  git -C $A/repo checkout -- .
done
