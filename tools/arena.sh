#!/bin/sh
# tools/arena.sh <name> [refresh]
# A private copy of the machinery for trying seeded changes without occupying /repo:
#   /tmp/arena/<name>/repo   git worktree of /repo HEAD (patches are applied here)
#   /tmp/arena/<name>/verif  copy of /verif (own harness target dir, path dependency re-pointed to the arena repo)
# The registered checks never use an arena; results obtained in one are re-confirmed against /repo itself
# (tools/try_seed.sh) before they are recorded.  "refresh" re-copies the harness sources / known findings only.
set -e
A=/tmp/arena/$1
mkdir -p $A
if [ ! -d $A/repo ]; then
  git -C /repo worktree add --detach $A/repo HEAD >/dev/null 2>&1
fi
rsync -a --delete --exclude harness/target --exclude replays --exclude .git --exclude evidence /verif/ $A/verif/
mkdir -p $A/verif/evidence
sed -i "s#/repo/rust/altrios-core#$A/repo/rust/altrios-core#" $A/verif/harness/Cargo.toml
sed -i "s#/verif/harness/target#$A/verif/harness/target#" $A/verif/harness/.cargo/config.toml
if [ ! -d $A/verif/harness/target ]; then
  cp -a /verif/harness/target $A/verif/harness/target
fi
echo $A
