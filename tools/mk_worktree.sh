#!/bin/sh
# usage: mk_worktree.sh <name>  -> /tmp/wt/<name> (git worktree of /repo HEAD, warm debug target copied)
set -e
mkdir -p /tmp/wt
git -C /repo worktree add --detach /tmp/wt/$1 HEAD >/dev/null 2>&1
cp -a /repo/rust/target /tmp/wt/$1/rust/target
echo /tmp/wt/$1
