#!/usr/bin/env python3
"""Regenerates /verif/MANIFEST.json from the table below (single source for the per-check texts)."""
import json, os, subprocess
ROOT = os.path.dirname(os.path.dirname(os.path.abspath(__file__)))

def repo_hook_commits():
    try:
        out = subprocess.check_output(["git", "-C", "/repo", "log", "--format=%H %s"], text=True)
        return [l.split()[0] for l in out.splitlines() if " verif-hooks:" in " " + l]
    except Exception:
        return []

CHECKS = {
 "C02": dict(level="model_checking", ref="3 C02/C13", technique="exhaustive input-shape enumeration (E-SHAPE) of restriction sets on an integer grid through the real PathTpc::extend, pointwise-min reference model, all extension partitions; train parameters also derived by TrainConfig::make_train_params from configurations with zero-count car types",
   text="Every sorted restriction list up to the stated size on a 100 m grid (nested, overlapping, abutting, duplicate-bound, inside another, filtered by speed_max), head/tail-end, train lengths, gating conditions on both sides of every comparison, and every way of splitting 2-3-link routes into extend calls is run through the real PathTpc::extend; the enforced profile is compared with the pointwise minimum of the posted limits on every open interval. Bounded exhaustive: nothing in the stated space is skipped.",
   note="trusts the harness reference (pointwise min, 40 lines) and the mid-interval comparison convention; grid positions and three speed values only"),
 "C13": dict(level="model_checking", ref="3 C02/C13", technique="exhaustive input-shape enumeration (E-SHAPE) of restriction sets on an integer grid through the real PathTpc::extend, equality with pointwise-min reference + canonical-form check; train parameters also derived by TrainConfig::make_train_params from configurations with zero-count car types",
   text="Same exploration as C02 with the tightness oracle: enforced limit == min(speed_max, restrictions covering x) on every open interval, profile sorted, starts at 0, no equal-valued neighbours, accepted by the library's own validator, identical for every extension partition.",
   note="as C02"),
}

PT_NOTE = "trusts the harness's 60-line ledger/limit recomputation and the tolerance band of DESIGN 1.6; parameter values at the PT alphabet points only; bounded depth (FULL(d), DEV(L,k))"
CHECKS.update({
 "C01": dict(level="model_checking", ref="3 C01", technique="exhaustive operation-sequence exploration (E-SEQ FULL(d)+DEV(L,k)) of real Locomotive/Consist objects over state-relative demand letters, ledger oracle on every prefix, traces re-run through LocomotiveSimulation::walk; reported loss totals (get_energy_loss) against component sums",
   text="Every demand sequence up to the stated depth / deviation bound from a 52-letter alphabet (demands relative to the limits just published, four step sizes incl. one that carries the small pack through its SOC window) on every powertrain configuration of the PT family is executed on the real objects exactly as the simulation loop drives them; every per-step hand-off and every cumulative identity of the energy ledger is evaluated on every accepted step. Bounded exhaustive, float-valued tree (no state merging).",
   note=PT_NOTE),
 "C08": dict(level="model_checking", ref="3 C08", technique="exhaustive operation-sequence exploration (E-SEQ) with the engine-command dimension (on/None/off), second-law oracle on every accepted step; engine-off clause on conventional, hybrid and battery-electric units",
   text="The C01 exploration with engine on/None/off letters added; per component loss >= 0, 0 < eta <= 1, |out| <= |in| in the direction of flow, cumulative fuel/loss/dyn-brake energies monotone, no dyn-brake power without braking demand, engine off => no fuel, no aux.",
   note=PT_NOTE),
 "C09": dict(level="model_checking", ref="3 C09", technique="exhaustive operation-sequence exploration (E-SEQ) with adversarial letters at / just below / just above every published limit; accepted over-limit step = violation; plus E-SEQ on the stand-alone ReversibleEnergyStorage API with every combination of charge / discharge energy buffers",
   text="Demands are chosen relative to the limits the object has just published (at, 1e-9 below, just above the code's tolerance, 20 % above; regen and dyn-brake likewise, -1.01 x drivetrain rating); on every accepted step ratings, transient limit, ramp rate (against the shaft power the generator actually took), battery charge/discharge limits, SOC window and sanity of the published limits are checked.",
   note=PT_NOTE),
})

CHECKS.update({
 "C10": dict(level="model_checking", ref="3 C10", technique="exhaustive operation-sequence exploration (E-SEQ) of real Consist objects over all ordered compositions of <= 3 unit variants (+ all {conv,BEL}^4) x both policies x consist-level demand letters incl. the battery-first boundary; engine command letters (on / off / None) on the public consist API",
   text="Every ordered composition up to 3 units from the unit-variant alphabet (differing ratings and SOC, units inside both derating ramps and at the SOC floor), all {conv,BEL}^4 and representative 5..8-unit consists, under Proportional and RESGreedy, are stepped through every demand sequence within the bound; on every accepted step the split is checked for conservation, per-unit capability, sign discipline, regeneration placement and battery-first dispatch.",
   note="stated bound n <= 4 exhaustive, larger consists representative; trusts the per-unit limits the units publish (those are C09's subject)"),
 "C16": dict(level="fault_enumeration", ref="3 C16", technique="exhaustive single-fault enumeration: every mutation kind x every link x every valid base network, through every loader; independent reference validity predicate; plus text-level faults (index fields of the JSON / YAML file outside the u32 range)",
   text="Each documented rule is broken in isolation at every link of every base network (plus out-of-range, NaN, infinite and negative field values, and mutations that must stay valid), and the verdict of ObjState::validate / Network::from_json / from_yaml / from_file is compared with an independently written reference predicate; a panic is a violation; the legacy file layout must load to the same network.",
   note="trusts the 150-line reference predicate written from the documented rules; single faults only (no fault pairs)"),
})

CHECKS.update({
 "C06": dict(level="model_checking", ref="3 C06", technique="exhaustive enumeration (E-SHAPE) of every link sequence up to length 3/4 over catalogue networks (contiguous and not) through the real PathTpc::extend; reference geometry walk; differential equality over all extension partitions",
   text="Every link sequence (including the dummy index) up to the bound over five catalogue networks that carry every elevation/heading/catenary pattern and link lengths from 5 m to 4 km is built through PathTpc::extend (and finish); boundaries, elevation, grade, curve coefficient, cumulative curve resistance, shifted catenary sections and index counts are compared with a reference obtained by walking the route's own points at 7 interior points per segment; all partitions must give the identical path (==); non-contiguous sequences must return Err without panicking.",
   note="continuous elevations across links; PathTpc::validate is not used as an oracle (it demands bit-exact float identities the property does not state)"),
})

TR_NOTE = "trusts the reference geometry walk, the independent re-aggregation of car parameters and the tolerance band of DESIGN 1.6; trace alphabet accel in {-0.3, 0, +0.2} m/s^2 x dt in {0.5, 1, 2.5} s; bounded depth"
CHECKS.update({
 "C07": dict(level="model_checking", ref="3 C07", technique="exhaustive operation-sequence exploration (E-SEQ FULL(d)+DEV(L,k)) of real SetSpeedTrainSim objects (one trace point + one real step per letter) over catalogue routes x trains; reference physics from the network's own points; traces re-run through walk(); hand-assembled resistance models (path caches constructed on the populated path through the secondary builder entry point)",
   text="Every speed-trace continuation within the bound is stepped on real simulators over routes whose links are shorter and longer than one step of travel and than the train; on every accepted step weight, grade, curve, rolling, Davis-B, bearing and aero forces, front elevation and front/rear grades are compared with their definitions evaluated on a reference built from the network's own elevation and heading points.",
   note=TR_NOTE),
 "C11": dict(level="model_checking", ref="3 C11", technique="exhaustive operation-sequence exploration (E-SEQ) of real SetSpeedTrainSim objects; cross-level power/energy agreement on every accepted step",
   text="On every accepted step of the set-speed exploration the consist request is bit-equal to the train demand, the consist delivery equals it within the code's 1e-8, and wheel / fuel / battery energies agree between train, consist and the sum over locomotives and with the getters.",
   note=TR_NOTE),
 "C12": dict(level="model_checking", ref="3 C12", technique="exhaustive operation-sequence exploration (E-SEQ) of real SetSpeedTrainSim objects incl. steps crossing several 5 m links; kinematic bookkeeping oracle on consecutive states",
   text="On every accepted step: time advances by dt, front position by dt times mean speed, rear = front - length, total distance accumulates |move|, and (front segment, in-segment offset) identify the front position on the reference route.",
   note=TR_NOTE),
 "C14": dict(level="model_checking", ref="3 C14", technique="exhaustive operation-sequence exploration (E-SEQ) of real SetSpeedTrainSim objects with irregular time stamps; wheel-power reference; negative-speed probes at every position; brake-to-stand and dwell steps",
   text="On every accepted step time and speed are bit-equal to the trace, wheel power equals the clipped sum of compound-mass inertia power and resistance power, energies advance by power times the trace's own dt; a negative trace speed at every position of a run must be rejected.",
   note=TR_NOTE + "; the rate clip is accepted with either the current or the previous dt (watch item D12)"),
})

CHECKS.update({
 "C03": dict(level="model_checking", ref="3 C03", technique="exhaustive input-shape enumeration (E-SHAPE) of restriction profiles x grades x trains x path-extension schedules, each run on a real SpeedLimitTrainSim stepped with the real step(); safety oracle on every step; whole-path runs re-run through walk(); speed sets gated by train-parameter conditions (thresholds placed relative to the train)",
   text="Every 3-zone restriction profile over the cut-point grid (incl. all short fast windows), head/tail-end, six grade shapes (incl. steep downgrades easing off), three trains (incl. 60 loaded cars behind one locomotive, also with a 10 s friction-brake ramp) and two departure times is simulated whole-path, link-by-link at three extension thresholds, through the real walk_timed_path with every single-entry delay, and through make_est_times; every step is checked for speed >= 0, speed <= reference posted limit at the front position and <= the simulator's own limit, target <= limit; the run must end at rest inside the stopping window with Ok or a descriptive Err - a panic (the in-code overspeed assert) is a violation.",
   note="reference limit = C13 reference (pointwise min, tail-end extended by train length); 3 km routes on a fixed cut-point grid; the known overspeed-assert defect is listed in KNOWN_FINDINGS.txt under four keys of one input class"),
})
for k in ("C07","C11","C12"):
    CHECKS[k]["technique"] += "; plus every step of the C03 speed-limited runs" + ("; plus backward kinematics of the stored braking points" if k=="C07" else "")

DISP_NOTE = "needs hook H1 (feature verif-hooks) to see intermediate dispatch states; scenario family bounded as stated in the evidence rule; occupancy semantics recomputed from disp_path events; events such as rewind/re-route are reported as measured (not assumed to occur)"
CHECKS.update({
 "C04": dict(level="model_checking", ref="3 C04/C05", technique="exhaustive enumeration (E-SHAPE) of dispatch scenarios (topology x every ordered train set incl. all departure orderings and ties) on the real run_dispatch; reachable dispatch states observed through hook H1 after every tentative advance, rewind and completed train move; occupancy-window oracle on every state and on the returned plan, rewind-restores-occupancy differential oracle; double-track topologies with lockout declarations on the links roll-backs hand back",
   text="For every scenario in the bounded family the real dispatcher is run once and its state is observed after every tentative advance, every rewind, every completed train move and at the end; on each state occupancy windows are recomputed from the trains' own event paths and checked: opposing trains never overlap on a physical segment, mutually exclusive segments are never held together, followers keep the configured entry and exit headway and never change order inside a segment; plus a black-box necessary condition on the returned timed paths, and after every rewind the authority table and links_blocked must equal what they were at the previous completed move.",
   note=DISP_NOTE),
 "C05": dict(level="model_checking", ref="3 C04/C05", technique="exhaustive enumeration (E-SHAPE) of dispatch scenarios on the real run_dispatch in a debug-assertions build (UB checks on get_unchecked, overflow checks), crash-isolated workers; plan-validity oracle incl. free-running times from the final TrainDisp (hook H1); double-track topologies with lockout declarations on the links roll-backs hand back",
   text="Every scenario must terminate with either a complete plan (one non-empty, contiguous, origin-to-destination route per train, starting at or after departure, non-decreasing finite times, never faster than the train's own free-running times along the chosen path, identical to the final dispatch state) or an error naming the stuck trains; a panic, an assert, a UB-check abort or a hang is a violation attributed to the scenario.",
   note=DISP_NOTE),
})

CHECKS.update({
 "C15": dict(level="model_checking", ref="3 C15", technique="exhaustive enumeration of every node, edge and start-to-end walk of the graphs returned by the real make_est_times over the dispatch topology family x O/D x train length x departure",
   text="For every generated (topology, origin/destination, train, departure) the real estimated-time network is built and then explored completely: reciprocity of forward/backward links at every node, every walk over primary/alternate links reaches the end node and spells a contiguous origin-to-destination route with each segment cleared after it is entered and in order, all times/durations/distances finite and non-negative (not before departure), each node = primary predecessor + duration, no node later than any predecessor allows.",
   note="graphs are small (tens of nodes) so node/walk enumeration is complete; get_running_time_hours itself is only compiled with the pyo3 feature, its defining difference is checked instead; the multi-origin scheduling defect is a known finding (3 keys, one input class)"),
})

CHECKS.update({
 "C19": dict(level="model_checking", ref="3 C19", technique="exhaustive enumeration (E-SHAPE) of save interval x run length x failing-step position x composition on the real walk() of all four simulation kinds, plus exhaustive action sequences (E-SEQ: step ok / step failing / set_save_interval) with a reference model of the saved steps; generic inspection of every nested history, counter and interval",
   text="Every combination of simulation kind, consist composition, save interval, run length 0..12 (+ long runs) and failing-step position is walked with the real walk()/walk_timed_path; every sequence of 5 actions (step, failing step, interval change) is driven on locomotive and consist simulations. After each run / action all histories found anywhere in the object tree must have equal length and identical step columns equal to the reference list of saved steps, all nested counters must agree and equal steps+1, nested save intervals must equal the top-level one, and a failed step must change neither.",
   note="object tree read through its serialized form; the reference list of saved steps encodes walk()'s initial save"),
})

CHECKS.update({
 "C20": dict(level="model_checking", ref="3 C20", technique="explicit-state search (BFS with deduplication on the serialized object) over setter sequences on FuelConverter / Generator / ReversibleEnergyStorage / Locomotive (conv, BEL, dummy) from every known/unknown initial file; reference model of each documented side-effect option; roll-up checks for Consist and TrainSimBuilder; every subset of consist units with unknown mass",
   text="All setter sequences up to the stated depth are applied to the real objects from every combination of known/unknown mass data (loaded through the real from_json/init, incl. redundant inconsistent files); states are deduplicated on the serialized object (a true reachable-state search: states, transitions and max depth are reported). After every transition: accepted updates keep the getters answering and consistent, the stored fields equal what the chosen side-effect option documents, a rejected update leaves the object byte-identical; consist mass/force and train static mass/weight equal their sums.",
   note="depth-bounded; two mass values, two adhesion values, two force values (one consistent with (mu1, m1)); the dummy locomotive's derived mass of exactly 0 kg is treated as degenerate for mu = f/(m g)"),
})

CHECKS.update({
 "C17": dict(level="fault_enumeration", ref="3 C17", technique="exhaustive checkpoint enumeration (E-CKPT): every catalogue type x {yaml, json, bin} x {string/bytes, file} x every step index of short runs as save/load point; resumed run compared with the uninterrupted run; every single-flag variant of every catalogue object (each boolean option flipped in turn); every spelling of the string / reader API",
   text="Every exported model type in default and stepped states is written and read back in each advertised format through both APIs; for the four simulation kinds every step index of three run shapes is used as the checkpoint: save, load, save and load again (no drift), then the original and the reloaded copy are both run to the end and must agree step for step and in the final object (bit-exact for yaml/bin through the serialized view, 1e-9 relative for json).",
   note="three known serde limitations are listed in KNOWN_FINDINGS.txt keyed by (format, cause class); objects in those classes are only covered in the remaining formats; load(save(x)) == x is not demanded field by field because init() normalises derived state"),
})

CHECKS.update({
 "C18": dict(level="model_checking", ref="3 C18", technique="exhaustive interleaving exploration of the batch-walk contract with the real LocomotiveSimulation::walk as element bodies (shuttle check_dfs for N<=3, explicit (2N)!/2^N event enumeration for N=4,5, cross-checked), bound to the real rayon walk(true) in pools of 1..16 threads; exhaustive enumeration of hash-map iteration orders; sampled twin-run tripwire (labelled, not deciding); an explorer finding that a fresh process does not reproduce is itself reported (result depends on process history)",
   text="Every interleaving of every batch of up to 3 elements (and the stated N=4, 5 batches) of real locomotive simulations under rayon's try_for_each contract is executed in one process: each element must end bit-equal to its own serial walk or untouched, the batch result must be consistent and name a failing element that ran. The real parallel walk in pools of 1..16 threads must only produce outcomes of the explored set, and the serial batch walk must equal the element-wise serial reference. All 3! iteration orders of the three std hash containers are realised and must not change any output.",
   note="rayon is modelled by its contract, not instrumented; the twin-run part samples hash seeds and never decides"),
})

def main():
    checks = []
    for pid in sorted(CHECKS):
        c = CHECKS[pid]
        checks.append({
            "property_id": pid,
            "quick_cmd": f"./check {pid} quick",
            "thorough_cmd": f"./check {pid} thorough",
            "evidence_file": f"/verif/evidence/{pid}.json",
            "replay_cmd_template": f"./check {pid} --replay {{path}}",
            "engine": "altrios-mc",
            "level_claimed": {"category": c["level"], "text": c["text"], "design_ref": "DESIGN.md §" + c["ref"]},
            "level_note": c["note"],
            "technique": c["technique"],
        })
    props = [json.loads(l)["id"] for l in open(os.path.join(ROOT, "properties.jsonl"))]
    na_path = os.path.join(ROOT, "tools", "not_applicable.json")
    na_reasons = json.load(open(na_path)) if os.path.exists(na_path) else {}
    na = []
    for p in props:
        if p not in CHECKS:
            na.append({"property_id": p, "reason": na_reasons.get(p, "check not built yet in this round (planned in DESIGN.md §3; not a limitation of the technique)")})
    m = {
        "version": 1,
        "setup_cmd": "cd /verif/harness && CARGO_NET_OFFLINE=true cargo build --release --offline",
        "hooks": {
            "guard": "cargo feature `verif-hooks` of altrios-core",
            "enable": "the harness crate depends on altrios-core by path (/repo/rust/altrios-core) with features=[\"verif-hooks\"]; every ./check rebuilds it from the working tree",
            "baseline_off_cmd": "cd /repo/rust && cargo test --workspace --no-fail-fast --offline",
            "source_commits": repo_hook_commits(),
            "add_only": True,
        },
        "engines": [
            {"name": "altrios-mc", "path": "/verif/harness", "serves_properties": sorted(CHECKS),
             "kind_free_text": "hand-rolled bounded-exhaustive explorers on the real altrios objects: E-SEQ (operation sequences, FULL(d)/DEV(L,k), dedup where states converge), E-SHAPE (finite input-shape products), E-CKPT (checkpoint/fault enumeration), shuttle check_dfs for the one concurrent seam; 16 crash-isolated worker subprocesses; straight-line replay of every counterexample"},
        ],
        "checks": checks,
        "not_applicable": na,
        "notes": "exit 0 = held on everything explored (KNOWN-FINDING lines allowed), 1 = VIOLATION, 2 = machinery failure (never a verdict). Known findings: /verif/KNOWN_FINDINGS.txt.",
    }
    json.dump(m, open(os.path.join(ROOT, "MANIFEST.json"), "w"), indent=1)
    print("wrote MANIFEST.json with", len(checks), "checks;", len(na), "not claimed")

if __name__ == "__main__":
    main()
