#!/bin/sh
# tools/arena_try.sh <arena> <patch> <Cnn> [Cnn...]   try one change in an arena (see arena.sh); /repo is not touched
A=/tmp/arena/$1; P=$2; shift; shift
cd $A/verif || exit 2
git -C $A/repo checkout -- . 
if ! git -C $A/repo apply --check "$P" 2>/dev/null; then echo "patch does not apply"; exit 2; fi
git -C $A/repo apply "$P"
for C in "$@"; do
  ./check $C quick > $A/try.$C.out 2>&1; RC=$?
  echo "$C exit=$RC"; grep -E "^\[|^VIOLATION|^KNOWN|MACHINERY" $A/try.$C.out | cut -c1-300 | head -8
  grep -A1 "^VIOLATION" $A/try.$C.out | grep "key=" | sed 's/^ *//' | cut -c1-200 | sort | uniq -c | head -8
done
git -C $A/repo checkout -- .
