#!/bin/sh
# usage: confirm_seed.sh <ID>   confirms in the scratch worktree /tmp/wt/<ID> that the seeded change
# (a) keeps the existing suite green, (b) makes the demo fail, (c) demo passes without it. Writes /tmp/seed/<ID>/confirm.txt
ID=$1; WT=/tmp/wt/$ID; OUT=/tmp/seed/$ID/confirm.txt
cd $WT || exit 2
: > $OUT
git diff -- rust/altrios-core/src rust/altrios-core/altrios-proc-macros > /tmp/seed/$ID/patch.check.diff
if ! cmp -s /tmp/seed/$ID/patch.check.diff /tmp/seed/$ID/patch.diff; then echo "NOTE: worktree diff differs from patch.diff" >> $OUT; fi
DEMO=rust/altrios-core/tests/seeded_$ID.rs
mv $DEMO /tmp/seed/$ID/demo.hold.rs
(cd rust && cargo test --workspace --no-fail-fast --offline 2>&1 | grep -E "^test result" | head -1) >> $OUT
echo "^ existing suite WITH change" >> $OUT
cp /tmp/seed/$ID/demo.hold.rs $DEMO
(cd rust && cargo test -p altrios-core --test seeded_$ID --offline 2>&1 | grep -E "^test result" ) >> $OUT
echo "^ demo WITH change (must fail)" >> $OUT
git apply -R /tmp/seed/$ID/patch.diff
(cd rust && cargo test -p altrios-core --test seeded_$ID --offline 2>&1 | grep -E "^test result" ) >> $OUT
echo "^ demo WITHOUT change (must pass)" >> $OUT
git apply /tmp/seed/$ID/patch.diff
rm -f /tmp/seed/$ID/demo.hold.rs /tmp/seed/$ID/patch.check.diff
cat $OUT
