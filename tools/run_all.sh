#!/bin/sh
# tools/run_all.sh [quick|thorough]  -> one line per property: exit code, wall, states; non-zero exit if any check != 0
T=${1:-quick}; cd /verif || exit 2; BAD=0
for p in C01 C02 C03 C04 C05 C06 C07 C08 C09 C10 C11 C12 C13 C14 C15 C16 C17 C18 C19 C20; do
  ./check $p $T > /tmp/run_all.$p.out 2>&1; RC=$?
  L=$(grep -m1 "^\[$p" /tmp/run_all.$p.out | cut -c1-160)
  K=$(grep -c "^KNOWN-FINDING" /tmp/run_all.$p.out)
  echo "$p exit=$RC known=$K $L"
  [ $RC -ne 0 ] && BAD=1
done
exit $BAD
