#!/bin/sh
# Applies every seeded change under /verif/seeded/<id>/ to /repo, runs the quick check(s) of the property it breaks,
# reverts, and prints one line per seed.  usage: tools/run_seeds.sh [ID...]
cd /verif || exit 2
IDS="$@"; [ -z "$IDS" ] && IDS=$(ls seeded | grep '^C')
for ID in $IDS; do
  P=seeded/$ID/patch.diff; [ -f seeded/$ID/patch.rebased.diff ] && P=seeded/$ID/patch.rebased.diff
  if ! git -C /repo apply --check /verif/$P 2>/dev/null; then echo "$ID patch-does-not-apply"; continue; fi
  git -C /repo apply /verif/$P
  CHECKS=$(echo $ID | cut -c1-3)
  # a change may be visible to a neighbouring property's check as well
  [ -f seeded/$ID/also.txt ] && CHECKS="$(echo $ID | cut -c1-3) $(cat seeded/$ID/also.txt)"
  for C in $CHECKS; do
    ./check $C quick > /tmp/run_seed.$ID.$C.out 2>&1; RC=$?
    # first key of a VIOLATION (not of a KNOWN-FINDING line)
    KEY=$(grep -A1 "^VIOLATION" /tmp/run_seed.$ID.$C.out | grep -m1 "key=" | sed 's/ occurrences.*//; s/^ *//')
    echo "$ID check=$C exit=$RC $KEY"
  done
  git -C /repo checkout -- .
done
(cd /verif/harness && cargo build --release --offline >/dev/null 2>&1)
