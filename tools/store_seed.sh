#!/bin/sh
# usage: store_seed.sh <ID> <detected:true|false> [note]   confirm in the worktree, copy to seeded/<ID>, write meta, remove the worktree
ID=$1; DET=$2; NOTE=$3
cd /verif || exit 2
tools/confirm_seed.sh $ID 2>&1 | grep -E "^test result|NOTE"
mkdir -p seeded/$ID
cp /tmp/seed/$ID/patch.diff /tmp/seed/$ID/demo.rs /tmp/seed/$ID/confirm.txt seeded/$ID/
[ -f /tmp/seed/$ID/patch.rebased.diff ] && cp /tmp/seed/$ID/patch.rebased.diff seeded/$ID/
python3 - "$ID" "$DET" "$NOTE" <<'PY'
import json,sys
s,det,note=sys.argv[1],sys.argv[2],sys.argv[3]
m=json.load(open(f'/tmp/seed/{s}/meta.json'))
m['breaks_property']=s[:3]
m['detected_by_verif']=(det=='true')
if note: m['verif_note']=note
json.dump(m,open(f'/verif/seeded/{s}/meta.json','w'),indent=1)
PY
git -C /repo worktree remove --force /tmp/wt/$ID; git -C /repo worktree prune
if git -C /repo apply --check /verif/seeded/$ID/patch.diff 2>/dev/null; then echo "$ID stored (applies to HEAD)"; else echo "$ID stored (NEEDS patch.rebased.diff)"; fi
