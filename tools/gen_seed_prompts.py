#!/usr/bin/env python3
"""tools/gen_seed_prompts.py <suffix>   e.g. 'c' -> /tmp/seed/C01c.prompt.txt ... C20c.prompt.txt
Builds one prompt per property from tools/seed_prompt.tmpl: the property text only (title, statement, quantifier,
anchor files) plus, for diversity, the one-sentence summaries of the seeds already stored under seeded/."""
import json, sys, os, glob
suffix = sys.argv[1]
tmpl = open('/verif/tools/seed_prompt.tmpl').read()
os.makedirs('/tmp/seed', exist_ok=True)
for line in open('/verif/properties.jsonl'):
    p = json.loads(line)
    pid = p['id']
    sid = pid + suffix
    prop = f"{pid}: {p['title']}\n\nSTATEMENT: {p['statement']}\n\nQUANTIFIED OVER: {p['quantifier']['text']}\n\nRELEVANT FILES (anchors): {', '.join(p['anchors']['files'])}\n"
    prev = []
    for d in sorted(glob.glob(f'/verif/seeded/{pid}*')):
        try:
            m = json.load(open(d + '/meta.json'))
            prev.append(m.get('summary', '')[:420])
        except Exception:
            pass
    div = ''
    if prev:
        div = "\n\nIMPORTANT (diversity): other engineers have ALREADY seeded defects for this property. Their changes were:\n" + "\n".join(f'  ({i+1}) "{s}"' for i, s in enumerate(prev)) + "\nYou must pick a DIFFERENT mechanism in a DIFFERENT function (preferably a different file among the relevant files, or another relevant code path you find by reading) and a different kind of trigger from ALL of them. Do not repeat or vary their ideas. Prefer code paths that the statement covers but that are off the beaten track (rarely used options, secondary entry points, unusual-but-valid inputs).\n"
    t = tmpl.replace('__PROP__', prop + '\n-----\n' + div if '-----' not in tmpl.split('__PROP__')[1][:10] else prop + div)
    t = t.replace('__WT__', f'/tmp/wt/{sid}').replace('__ID__', sid)
    open(f'/tmp/seed/{sid}.prompt.txt', 'w').write(t)
    print(sid, len(t))
