#!/usr/bin/env python3
"""tools/cov_report.py <arena-dir> [Cnn ...]
Auxiliary (never a verdict): which lines of the files a property is anchored in does its quick check never execute?
Needs an arena whose harness was built with RUSTFLAGS="-C instrument-coverage" and per-check profiles
<arena>/prof/<Cnn>-*.profraw (see DESIGN 7.4).  Prints, per property, the uncovered line ranges of its anchor files."""
import json, subprocess, sys, os, glob, re
arena = sys.argv[1]
want = sys.argv[2:]
BIN = glob.glob(os.path.expanduser('~/.rustup/toolchains/nightly-x86_64-unknown-linux-gnu/lib/rustlib/*/bin'))[0]
mc = f'{arena}/verif/harness/target/release/mc'
props = [json.loads(l) for l in open('/verif/properties.jsonl')]
for p in props:
    pid = p['id']
    if want and pid not in want: continue
    raws = glob.glob(f'{arena}/prof/{pid}-*.profraw')
    if not raws: continue
    pd = f'{arena}/prof/{pid}.profdata'
    subprocess.run([f'{BIN}/llvm-profdata', 'merge', '-sparse', '-o', pd] + raws, check=True)
    files = [f'{arena}/repo/{f}' for f in p['anchors']['files'] if f.endswith('.rs')]
    files = [f for f in files if os.path.exists(f)]
    out = subprocess.run([f'{BIN}/llvm-cov', 'export', '-format=lcov', f'-instr-profile={pd}', mc] + files,
                         capture_output=True, text=True).stdout
    cur = None; unc = {}; tot = {}
    for line in out.splitlines():
        if line.startswith('SF:'): cur = line[3:]; unc[cur] = []; tot[cur] = 0
        elif line.startswith('DA:'):
            ln, cnt = line[3:].split(',')[:2]
            tot[cur] += 1
            if int(cnt) == 0: unc[cur].append(int(ln))
    print(f'=== {pid} {p["title"]}')
    for f in sorted(unc):
        u = unc[f]
        if not tot[f]: continue
        # compress to ranges
        rs = [];
        for n in u:
            if rs and n == rs[-1][1] + 1: rs[-1][1] = n
            else: rs.append([n, n])
        short = f.replace(f'{arena}/repo/rust/altrios-core/src/', '')
        print(f'  {short}: {len(u)}/{tot[f]} lines never executed: ' + ' '.join(f'{a}-{b}' if a != b else str(a) for a, b in rs))
