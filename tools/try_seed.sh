#!/bin/sh
# usage: try_seed.sh <patch> <prop> [tier]   apply a seeded change to /repo, run the check, revert
P=$1; ID=$2; TIER=${3:-quick}
cd /repo || exit 2
if ! git apply --check "$P" 2>/dev/null; then echo "patch does not apply"; git apply --check "$P"; exit 2; fi
git apply "$P"
cd /verif && ./check $ID $TIER > /tmp/try_seed.$ID.out 2>&1; RC=$?
git -C /repo checkout -- . 
# rebuild against the restored tree so that no later run uses a binary built from the patched sources
(cd /verif/harness && cargo build --release --offline >/dev/null 2>&1)
echo "check exit=$RC"; grep -E "^\[|VIOLATION|KNOWN|MACHINERY|key=" /tmp/try_seed.$ID.out | cut -c1-400 | head -20
