//! Reference route geometry obtained by walking the route's own network points (independent of PathTpc).
use altrios_core::track::{Link, TrainParams};

pub struct RouteRef {
    /// cumulative link offsets (n_links + 1)
    pub base: Vec<f64>,
    /// (path offset, elevation)
    pub eref: Vec<(f64, f64)>,
    /// (path offset, cumulative curve resistance, coefficient of the segment starting here)
    pub cref: Vec<(f64, f64, f64)>,
    pub links: Vec<usize>,
}

pub fn wrap_abs(d: f64) -> f64 {
    let two_pi = 2.0 * std::f64::consts::PI;
    let mut x = d % two_pi;
    if x < 0.0 {
        x += two_pi;
    }
    if x > std::f64::consts::PI {
        two_pi - x
    } else {
        x
    }
}

impl RouteRef {
    pub fn new(links: &[Link], seq: &[usize], tp: &TrainParams) -> Self {
        let mut base = vec![0.0];
        for &i in seq {
            base.push(base.last().unwrap() + links[i].length.value);
        }
        let mut eref: Vec<(f64, f64)> = vec![];
        let mut cref: Vec<(f64, f64, f64)> = vec![];
        let mut cum = 0.0;
        let one_degree = 1.745_329_251_994_329_5e-2 / 30.48;
        let (c0, c1, c2) = (tp.curve_coeff_0.value, tp.curve_coeff_1.value, tp.curve_coeff_2.value);
        // "walking the route's own elevation points": the differences inside each link are accumulated, so where the
        // recorded elevations of two consecutive links disagree at their junction (validation allows that) the later
        // link is shifted onto the end of the earlier one; for continuous networks the shift is exactly 0
        let mut shift = 0.0;
        let mut last_y: Option<f64> = None;
        for (k, &i) in seq.iter().enumerate() {
            let l = &links[i];
            if let (Some(ly), Some(first)) = (last_y, l.elevs.first()) {
                shift = ly - first.elev.value;
            }
            for (j, e) in l.elevs.iter().enumerate() {
                if k > 0 && j == 0 {
                    continue;
                }
                eref.push((base[k] + e.offset.value, e.elev.value + shift));
            }
            if let Some(e) = l.elevs.last() {
                last_y = Some(e.elev.value + shift);
            }
            if l.headings.is_empty() {
                cref.push((base[k], cum, 0.0));
            } else {
                for w in l.headings.windows(2) {
                    let len = w[1].offset.value - w[0].offset.value;
                    let curv = wrap_abs(w[1].heading.value - w[0].heading.value) / len;
                    let coeff = if curv < one_degree { c0 * curv } else { c0 * one_degree + c1 * (curv - one_degree) + c2 * (curv - one_degree) * (curv - one_degree) };
                    cref.push((base[k] + w[0].offset.value, cum, coeff));
                    cum += coeff * len;
                }
            }
        }
        cref.push((*base.last().unwrap(), cum, 0.0));
        RouteRef { base, eref, cref, links: seq.to_vec() }
    }
    pub fn total(&self) -> f64 {
        *self.base.last().unwrap()
    }
    /// elevation at x (extends the first/last segment linearly outside the path; flat beyond the end like PathTpc::finish)
    pub fn e_at(&self, x: f64) -> f64 {
        let n = self.eref.len();
        if x >= self.eref[n - 1].0 {
            return self.eref[n - 1].1;
        }
        let mut k = 0;
        while k + 2 < n && self.eref[k + 1].0 <= x {
            k += 1;
        }
        let (x0, y0) = self.eref[k];
        let (x1, y1) = self.eref[k + 1];
        y0 + (y1 - y0) * (x - x0) / (x1 - x0)
    }
    /// slopes just left and just right of x
    pub fn slopes(&self, x: f64) -> (f64, f64) {
        let n = self.eref.len();
        let seg = |k: usize| (self.eref[k + 1].1 - self.eref[k].1) / (self.eref[k + 1].0 - self.eref[k].0);
        let mut left = None;
        let mut right = None;
        for k in 0..n - 1 {
            if self.eref[k].0 < x && x <= self.eref[k + 1].0 {
                left = Some(seg(k));
            }
            if self.eref[k].0 <= x && x < self.eref[k + 1].0 {
                right = Some(seg(k));
            }
        }
        let l = left.or(right).unwrap_or(0.0);
        let r = right.or(if x >= self.eref[n - 1].0 { Some(0.0) } else { left }).unwrap_or(0.0);
        (l, r)
    }
    /// cumulative curve resistance at x
    pub fn c_at(&self, x: f64) -> f64 {
        let mut k = 0;
        while k + 1 < self.cref.len() && self.cref[k + 1].0 <= x {
            k += 1;
        }
        self.cref[k].1 + self.cref[k].2 * (x - self.cref[k].0)
    }
    /// index of the link containing front position x and the in-link offset, with both conventions at a boundary
    pub fn link_at(&self, x: f64) -> Vec<(usize, f64)> {
        let mut out = vec![];
        for k in 0..self.links.len() {
            if self.base[k] <= x && x <= self.base[k + 1] {
                out.push((self.links[k], x - self.base[k]));
            }
        }
        out
    }
}
