//! Boring reference models shared by several properties.
pub mod geometry;
