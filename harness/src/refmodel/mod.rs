//! Boring reference models shared by several properties.
