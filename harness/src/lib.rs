//! altrios-mc: bounded exhaustive exploration (model checking) of NREL/altrios. See /verif/DESIGN.md.
pub mod domain;
pub mod engine;
pub mod props;
pub mod refmodel;
