//! KNOWN_FINDINGS.txt: committed, line-oriented, never written at run time.
//!
//! ```text
//! finding: property=C03 key=<signature-key> <what fails, one line>
//! fixed:   property=C13 <commit> <what failed>
//! ```
//! Only `finding:` lines suppress anything, and only the exact (property, key) pair.

#[derive(Debug, Clone)]
pub struct Known {
    pub property: String,
    pub key: String,
    pub what: String,
}

pub fn load(path: &std::path::Path) -> Vec<Known> {
    let mut out = vec![];
    let Ok(txt) = std::fs::read_to_string(path) else {
        return out;
    };
    for line in txt.lines() {
        let line = line.trim();
        if let Some(rest) = line.strip_prefix("finding:") {
            let rest = rest.trim();
            let mut property = None;
            let mut key = None;
            let mut what = vec![];
            for tok in rest.split_whitespace() {
                if property.is_none() && tok.starts_with("property=") {
                    property = Some(tok["property=".len()..].to_string());
                } else if key.is_none() && tok.starts_with("key=") {
                    key = Some(tok["key=".len()..].to_string());
                } else {
                    what.push(tok);
                }
            }
            if let (Some(property), Some(key)) = (property, key) {
                out.push(Known {
                    property,
                    key,
                    what: what.join(" "),
                });
            }
        }
    }
    out
}
