//! E-SEQ: exhaustive depth-first enumeration of operation sequences on live (cloned) objects.
//!
//! `FULL(d)`: every sequence of length <= d.  `DEV(L,k)`: every sequence of length L that departs
//! from the default action (index 0) in at most k positions.  Both are the same recursion with a
//! deviation budget.  The step closure performs the real call on a clone of the parent object and
//! returns `None` when the call was rejected (the branch ends there: altrios does not promise an
//! atomic failure, so a rejected object is never stepped further).

/// `step(parent, action_index, path_so_far) -> Option<child>`; `path_so_far` includes the action.
pub fn dfs<S>(
    root: &S,
    max_len: usize,
    max_dev: Option<usize>,
    n_actions: usize,
    path: &mut Vec<usize>,
    step: &mut dyn FnMut(&S, usize, &[usize]) -> Option<S>,
) {
    if path.len() >= max_len {
        return;
    }
    let devs_used = path.iter().filter(|&&a| a != 0).count();
    for a in 0..n_actions {
        if a != 0 {
            if let Some(k) = max_dev {
                if devs_used >= k {
                    break;
                }
            }
        }
        path.push(a);
        if let Some(child) = step(root, a, path) {
            dfs(&child, max_len, max_dev, n_actions, path, step);
        }
        path.pop();
    }
}

/// closed-form number of step calls for FULL(d) with no rejections: sum_{i=1..d} n^i
pub fn full_count(n: u64, d: u32) -> u64 {
    (1..=d).map(|i| n.pow(i)).sum()
}
/// closed form for DEV(L,k) with no rejections: number of prefixes of length 1..L with <= k deviations
pub fn dev_count(n: u64, len: u64, k: u64) -> u64 {
    let mut total = 0u64;
    for l in 1..=len {
        for j in 0..=k.min(l) {
            total += binom(l, j) * (n - 1).pow(j as u32);
        }
    }
    total
}
fn binom(n: u64, k: u64) -> u64 {
    let mut r = 1u64;
    for i in 0..k {
        r = r * (n - i) / (i + 1);
    }
    r
}

/// self-test used by `mc selftest`: node counts match the closed forms and a planted violation at a
/// known leaf is found at exactly that leaf.
pub fn selftest() -> Result<(), String> {
    for (n, d) in [(3u64, 4u32), (5, 3), (2, 6)] {
        let mut cnt = 0u64;
        let mut path = vec![];
        dfs(&(), d as usize, None, n as usize, &mut path, &mut |_, _, _| {
            cnt += 1;
            Some(())
        });
        if cnt != full_count(n, d) {
            return Err(format!("FULL({d}) over {n} actions visited {cnt}, expected {}", full_count(n, d)));
        }
    }
    for (n, l, k) in [(4u64, 6u64, 2u64), (3, 10, 1), (5, 5, 0)] {
        let mut cnt = 0u64;
        let mut path = vec![];
        dfs(&(), l as usize, Some(k as usize), n as usize, &mut path, &mut |_, _, _| {
            cnt += 1;
            Some(())
        });
        if cnt != dev_count(n, l, k) {
            return Err(format!("DEV({l},{k}) over {n} actions visited {cnt}, expected {}", dev_count(n, l, k)));
        }
    }
    // planted leaf
    let planted = vec![2usize, 0, 1, 2];
    let mut found: Vec<Vec<usize>> = vec![];
    let mut path = vec![];
    dfs(&0u32, 4, None, 3, &mut path, &mut |s, a, p| {
        let v = s * 3 + a as u32;
        if p == planted.as_slice() {
            found.push(p.to_vec());
        }
        Some(v)
    });
    if found != vec![planted.clone()] {
        return Err(format!("planted leaf {:?} found as {:?}", planted, found));
    }
    Ok(())
}
