//! Parent side: spawn sharded workers, isolate aborts/hangs, merge, replay, report, write evidence.

use super::known;
use super::{Prop, ReplayOutcome, Stats, Tier, Violation};
use serde_json::{json, Value};
use std::collections::{BTreeMap, BTreeSet};
use std::path::{Path, PathBuf};
use std::process::{Child, Command, Stdio};
use std::time::{Duration, Instant};

pub fn verif_root() -> PathBuf {
    std::env::var("VERIF_ROOT").map(PathBuf::from).unwrap_or_else(|_| PathBuf::from("/verif"))
}

struct Worker {
    shard: u64,
    incarnation: u32,
    child: Child,
    out: PathBuf,
    cur: PathBuf,
    viol: PathBuf,
    resume_from: u64,
    skip: BTreeSet<u64>,
    started: Instant,
}

fn spawn(prop: &str, tier: Tier, seed: u64, nshards: u64, shard: u64, incarnation: u32, dir: &Path, resume_from: u64, skip: &BTreeSet<u64>, wall_s: u64) -> std::io::Result<Worker> {
    let out = dir.join(format!("w{}.{}.json", shard, incarnation));
    let cur = dir.join(format!("w{}.{}.cur", shard, incarnation));
    let viol = dir.join(format!("w{}.{}.viol", shard, incarnation));
    let exe = std::env::current_exe()?;
    let skip_s = skip.iter().map(|x| x.to_string()).collect::<Vec<_>>().join(",");
    let child = Command::new(exe)
        .arg("worker")
        .arg(prop)
        .arg(tier.as_str())
        .arg(format!("--shard={}", shard))
        .arg(format!("--nshards={}", nshards))
        .arg(format!("--seed={}", seed))
        .arg(format!("--out={}", out.display()))
        .arg(format!("--cur={}", cur.display()))
        .arg(format!("--viol={}", viol.display()))
        .arg(format!("--resume-from={}", resume_from))
        .arg(format!("--skip={}", skip_s))
        .arg(format!("--wall={}", wall_s))
        .stdin(Stdio::null())
        .stdout(Stdio::null())
        .stderr(Stdio::piped())
        .spawn()?;
    Ok(Worker { shard, incarnation, child, out, cur, viol, resume_from, skip: skip.clone(), started: Instant::now() })
}

fn read_stats(p: &Path) -> Option<Stats> {
    let txt = std::fs::read_to_string(p).ok()?;
    serde_json::from_str(&txt).ok()
}

fn read_cur(p: &Path) -> Option<(Option<u64>, Option<Value>)> {
    let txt = std::fs::read_to_string(p).ok()?;
    let mut lines = txt.lines();
    let first = lines.next()?.trim().to_string();
    if first == "done" {
        return Some((None, None));
    }
    let idx = first.trim_start_matches('0').parse::<u64>().ok().or(if first.chars().all(|c| c == '0') && !first.is_empty() { Some(0) } else { None });
    let desc = lines.next().and_then(|l| serde_json::from_str(l).ok());
    Some((idx, desc))
}

pub struct RunResult {
    pub exit_code: i32,
}

fn hash_str(s: &str) -> String {
    // FNV-1a 64
    let mut h: u64 = 0xcbf29ce484222325;
    for b in s.as_bytes() {
        h ^= *b as u64;
        h = h.wrapping_mul(0x100000001b3);
    }
    format!("{:016x}", h)
}

/// run `mc replay <prop> <file>` in a subprocess; returns outcome or a description of how it died
pub fn replay_subprocess(prop: &str, file: &Path, timeout: Duration) -> Result<ReplayOutcome, String> {
    let exe = std::env::current_exe().map_err(|e| e.to_string())?;
    let mut child = Command::new(exe)
        .arg("replay-json")
        .arg(prop)
        .arg(file)
        .stdin(Stdio::null())
        .stdout(Stdio::piped())
        .stderr(Stdio::null())
        .spawn()
        .map_err(|e| e.to_string())?;
    let start = Instant::now();
    loop {
        match child.try_wait() {
            Ok(Some(st)) => {
                let mut s = String::new();
                use std::io::Read;
                if let Some(mut o) = child.stdout.take() {
                    let _ = o.read_to_string(&mut s);
                }
                if st.success() {
                    // the subject may print to stdout (e.g. PathTpc::validate does): the outcome is the last line
                    let last = s.lines().rev().find(|l| !l.trim().is_empty()).unwrap_or("");
                    return serde_json::from_str::<ReplayOutcome>(last.trim()).map_err(|e| format!("unparsable replay output: {e}: {last}"));
                } else {
                    use std::os::unix::process::ExitStatusExt;
                    return Ok(ReplayOutcome {
                        violations: vec![(
                            format!("process-abort:{}", st.signal().map(|x| format!("signal{}", x)).unwrap_or_else(|| format!("exit{}", st.code().unwrap_or(-1)))),
                            "the process died while replaying this case".to_string(),
                        )],
                        observation: format!("died:{:?}", st.signal()),
                    });
                }
            }
            Ok(None) => {
                if start.elapsed() > timeout {
                    let _ = child.kill();
                    let _ = child.wait();
                    return Ok(ReplayOutcome {
                        violations: vec![("non-termination".to_string(), format!("replay did not finish within {:?}", timeout))],
                        observation: "hang".to_string(),
                    });
                }
                std::thread::sleep(Duration::from_millis(5));
            }
            Err(e) => return Err(e.to_string()),
        }
    }
}

pub fn run_check(prop: &dyn Prop, tier: Tier, seed: u64) -> RunResult {
    let t0 = Instant::now();
    let root = verif_root();
    let id = prop.id();
    let nshards: u64 = std::env::var("VERIF_WORKERS").ok().and_then(|s| s.parse().ok()).unwrap_or(16).max(1);
    let hang_s: u64 = std::env::var("VERIF_HANG_S").ok().and_then(|s| s.parse().ok()).unwrap_or(180);
    let wall_s = std::env::var("VERIF_WALL_S").ok().and_then(|s| s.parse().ok()).unwrap_or_else(|| prop.wall_cap_s(tier));
    let dir = root.join("harness/target/run").join(format!("{}-{}-{}", id, tier.as_str(), std::process::id()));
    let _ = std::fs::remove_dir_all(&dir);
    if let Err(e) = std::fs::create_dir_all(&dir) {
        eprintln!("machinery: cannot create {}: {e}", dir.display());
        return RunResult { exit_code: 2 };
    }

    let mut merged = Stats::default();
    let mut machinery: Vec<String> = vec![];
    let mut aborted_cases: u64 = 0;
    let mut workers: Vec<Worker> = vec![];
    for shard in 0..nshards {
        match spawn(id, tier, seed, nshards, shard, 0, &dir, 0, &BTreeSet::new(), wall_s) {
            Ok(w) => workers.push(w),
            Err(e) => {
                eprintln!("machinery: cannot spawn worker: {e}");
                return RunResult { exit_code: 2 };
            }
        }
    }
    let mut journal_violations: Vec<Violation> = vec![];
    while !workers.is_empty() {
        std::thread::sleep(Duration::from_millis(20));
        let mut i = 0;
        while i < workers.len() {
            let mut respawn: Option<(u64, u32, u64, BTreeSet<u64>)> = None;
            let mut finished = false;
            let status = workers[i].child.try_wait();
            match status {
                Ok(Some(st)) => {
                    finished = true;
                    let w = &mut workers[i];
                    let mut err = String::new();
                    use std::io::Read;
                    if let Some(mut e) = w.child.stderr.take() {
                        let _ = e.read_to_string(&mut err);
                    }
                    let stats = read_stats(&w.out);
                    // journaled violations (may include ones after the last flush)
                    if let Ok(txt) = std::fs::read_to_string(&w.viol) {
                        for l in txt.lines() {
                            if let Ok(v) = serde_json::from_str::<Violation>(l) {
                                journal_violations.push(v);
                            }
                        }
                    }
                    if st.success() {
                        match stats {
                            Some(s) => merged.merge(s),
                            None => machinery.push(format!("worker {} exited 0 without a result file", w.shard)),
                        }
                    } else {
                        use std::os::unix::process::ExitStatusExt;
                        let how = st.signal().map(|x| format!("signal{}", x)).unwrap_or_else(|| format!("exit{}", st.code().unwrap_or(-1)));
                        let cur = read_cur(&w.cur);
                        match cur {
                            Some((Some(idx), desc)) => {
                                // a case killed the process: that is an observation about altrios
                                aborted_cases += 1;
                                let last_line = err.lines().rev().find(|l| !l.trim().is_empty()).unwrap_or("").to_string();
                                let class = desc.as_ref().and_then(|d| d.get("class")).and_then(|c| c.as_str()).unwrap_or("").to_string();
                                let key = format!("process-abort:{}{}", how, if class.is_empty() { String::new() } else { format!(":{}", class) });
                                let v = Violation {
                                    property: id.to_string(),
                                    key,
                                    what: format!("worker process died ({how}) while running case {idx}; stderr tail: {}", last_line.chars().take(300).collect::<String>()),
                                    case: desc.unwrap_or(json!({"case_index": idx})),
                                    size: 0,
                                };
                                *merged.violation_counts.entry(v.key.clone()).or_insert(0) += 1;
                                merged.push_violation(v);
                                let (resume_from, mut base) = match stats {
                                    Some(s) => {
                                        let r = s.last_completed_case.map(|c| c + 1).unwrap_or(w.resume_from);
                                        (r.max(w.resume_from), s)
                                    }
                                    None => (w.resume_from, Stats::default()),
                                };
                                base.n_cases_total = None;
                                // the aborted case was claimed before dying
                                merged.merge(base);
                                let mut skip = w.skip.clone();
                                skip.insert(idx);
                                if w.incarnation < 200 {
                                    respawn = Some((w.shard, w.incarnation + 1, resume_from, skip));
                                } else {
                                    machinery.push(format!("worker {} died more than 200 times", w.shard));
                                }
                            }
                            _ => {
                                machinery.push(format!("worker {} died ({how}) outside any case; stderr: {}", w.shard, err.chars().take(2000).collect::<String>()));
                            }
                        }
                    }
                }
                Ok(None) => {
                    // hang detection: the cur file has not changed for hang_s seconds
                    let w = &mut workers[i];
                    let age = std::fs::metadata(&w.cur).and_then(|m| m.modified()).ok().and_then(|m| m.elapsed().ok());
                    let age = age.unwrap_or_else(|| w.started.elapsed());
                    if age > Duration::from_secs(hang_s) {
                        if let Some((Some(idx), desc)) = read_cur(&w.cur) {
                            let _ = w.child.kill();
                            let _ = w.child.wait();
                            finished = true;
                            aborted_cases += 1;
                            let v = Violation {
                                property: id.to_string(),
                                key: "non-termination".to_string(),
                                what: format!("case {idx} did not finish within {hang_s} s"),
                                case: desc.unwrap_or(json!({"case_index": idx})),
                                size: 0,
                            };
                            *merged.violation_counts.entry(v.key.clone()).or_insert(0) += 1;
                            merged.push_violation(v);
                            let stats = read_stats(&w.out);
                            let (resume_from, mut base) = match stats {
                                Some(s) => (s.last_completed_case.map(|c| c + 1).unwrap_or(w.resume_from).max(w.resume_from), s),
                                None => (w.resume_from, Stats::default()),
                            };
                            base.n_cases_total = None;
                            merged.merge(base);
                            let mut skip = w.skip.clone();
                            skip.insert(idx);
                            respawn = Some((w.shard, w.incarnation + 1, resume_from, skip));
                        }
                    }
                }
                Err(e) => {
                    machinery.push(format!("wait failed: {e}"));
                    finished = true;
                }
            }
            if finished {
                workers.remove(i);
            } else {
                i += 1;
            }
            if let Some((shard, inc, resume_from, skip)) = respawn {
                let left = wall_s.saturating_sub(t0.elapsed().as_secs()).max(5);
                match spawn(id, tier, seed, nshards, shard, inc, &dir, resume_from, &skip, left) {
                    Ok(w) => workers.push(w),
                    Err(e) => machinery.push(format!("respawn failed: {e}")),
                }
            }
        }
    }
    // violations journaled but lost from flushed stats
    {
        let have: BTreeSet<String> = merged.violations.iter().map(|v| format!("{}|{}", v.key, v.case)).collect();
        for v in journal_violations {
            let k = format!("{}|{}", v.key, v.case);
            if !have.contains(&k) {
                if !merged.violation_counts.contains_key(&v.key) {
                    merged.violation_counts.insert(v.key.clone(), 1);
                }
                merged.push_violation(v);
            }
        }
    }
    machinery.extend(merged.machinery_errors.clone());

    // parent-side step (binding to the real parallel loop etc.)
    prop.parent_step(tier, &mut merged);
    machinery.extend(merged.machinery_errors.iter().filter(|m| !machinery.contains(m)).cloned().collect::<Vec<_>>());

    // completeness of the enumeration
    let total = merged.n_cases_total.unwrap_or(0);
    let exhaustive = !merged.capped && machinery.is_empty() && total > 0 && merged.cases_claimed == total;
    if !merged.capped && total > 0 && merged.cases_claimed != total && machinery.is_empty() {
        machinery.push(format!("claimed {} cases but the enumeration has {}", merged.cases_claimed, total));
    }

    // replays + known-findings triage
    let known = known::load(&root.join("KNOWN_FINDINGS.txt"));
    let replay_dir = root.join("replays");
    let _ = std::fs::create_dir_all(&replay_dir);
    let mut reported: Vec<(String, PathBuf, String)> = vec![]; // key, path, what
    let mut known_hit: BTreeMap<String, String> = BTreeMap::new();
    let mut keys_done: BTreeSet<String> = BTreeSet::new();
    let mut viols = merged.violations.clone();
    viols.sort_by(|a, b| a.key.cmp(&b.key).then(a.size.cmp(&b.size)));
    for v in &viols {
        if keys_done.contains(&v.key) {
            continue;
        }
        let case_s = serde_json::to_string(&v.case).unwrap();
        let is_known = known.iter().find(|k| k.property == id && k.key == v.key);
        let fname = format!("{}-{}-{}.json", id, sanitize(&v.key), &hash_str(&case_s)[..10]);
        let path = replay_dir.join(fname);
        let doc = json!({"property": id, "key": v.key, "what": v.what, "case": v.case, "tier": tier.as_str()});
        if std::fs::write(&path, serde_json::to_string_pretty(&doc).unwrap()).is_err() {
            machinery.push(format!("cannot write replay file {}", path.display()));
            continue;
        }
        // re-execute twice without the explorer; both must show the same key
        let r1 = replay_subprocess(id, &path, Duration::from_secs(hang_s));
        let r2 = replay_subprocess(id, &path, Duration::from_secs(hang_s));
        match (r1, r2) {
            (Ok(a), Ok(b)) => {
                // two replays must show the same violation KEYS and the same observation; the free-text detail of a
                // violation may name a different witness where the subject itself is uncontrolled (real rayon pools)
                let keys = |r: &ReplayOutcome| -> Vec<String> { r.violations.iter().map(|v| v.0.clone()).collect() };
                if (keys(&a) != keys(&b) || a.observation != b.observation) && prop.irreproducibility_is_violation() {
                    let k = format!("same-case-gives-different-results-in-two-fresh-processes@replay:{}", v.key.split('@').next().unwrap_or(""));
                    if !keys_done.contains(&k) {
                        keys_done.insert(k.clone());
                        reported.push((k, path.clone(), format!("two straight-line executions of the recorded case disagree: {:?} {:?} vs {:?} {:?}", keys(&a), a.observation, keys(&b), b.observation)));
                    }
                    keys_done.insert(v.key.clone());
                    continue;
                }
                if keys(&a) != keys(&b) || a.observation != b.observation {
                    machinery.push(format!("replay of {} is not deterministic: {:?} {:?} vs {:?} {:?}", path.display(), keys(&a), a.observation, keys(&b), b.observation));
                    continue;
                }
                let reproduced = a.violations.iter().any(|(k, _)| *k == v.key)
                    || (v.key.starts_with("process-abort") && a.violations.iter().any(|(k, _)| k.starts_with("process-abort")))
                    || (v.key == "non-termination" && a.violations.iter().any(|(k, _)| k == "non-termination"));
                if !reproduced && prop.irreproducibility_is_violation() {
                    // the explorer (one long-lived process that ran many cases before this one) saw an oracle failure
                    // which a fresh process does not show: the result depends on what the process did before
                    let k = format!("result-depends-on-what-the-process-ran-before@explorer-vs-fresh-process:{}", v.key.split('@').next().unwrap_or(""));
                    if !keys_done.contains(&k) {
                        keys_done.insert(k.clone());
                        reported.push((k, path.clone(), format!("inside the explorer: {} ({}); the same case in a fresh process: {:?}", v.key, v.what.chars().take(200).collect::<String>(), a.violations.iter().map(|x| x.0.clone()).collect::<Vec<_>>())));
                    }
                    keys_done.insert(v.key.clone());
                    continue;
                }
                if !reproduced {
                    machinery.push(format!(
                        "explorer reported key {} but the straight-line replay of {} does not reproduce it (replay saw {:?})",
                        v.key,
                        path.display(),
                        a.violations.iter().map(|x| x.0.clone()).collect::<Vec<_>>()
                    ));
                    continue;
                }
            }
            (Err(e), _) | (_, Err(e)) => {
                machinery.push(format!("replay machinery failed: {e}"));
                continue;
            }
        }
        keys_done.insert(v.key.clone());
        if let Some(k) = is_known {
            known_hit.insert(v.key.clone(), k.what.clone());
            // keep known-finding replays out of the way: they are regenerated on every run
            let _ = std::fs::remove_file(&path);
        } else {
            reported.push((v.key.clone(), path, v.what.clone()));
        }
    }

    // evidence
    let wall = t0.elapsed().as_secs_f64();
    let mut coverage = serde_json::Map::new();
    coverage.insert("states".into(), json!(merged.states));
    coverage.insert("transitions".into(), json!(merged.transitions));
    coverage.insert("traces_validated_against_impl".into(), json!(merged.traces_validated));
    coverage.insert("evaluations".into(), json!(merged.evaluations.max(merged.cases_claimed)));
    coverage.insert("distinct_nontrivial".into(), json!(merged.signatures.len()));
    coverage.insert("rule".into(), json!(prop.rule(tier)));
    coverage.insert("samples".into(), Value::Array(if merged.samples.is_empty() { vec![json!("no sample recorded")] } else { merged.samples.clone() }));
    coverage.insert("exhaustive".into(), json!(exhaustive));
    coverage.insert("cases_enumerated".into(), json!(total));
    coverage.insert("cases_run".into(), json!(merged.cases_claimed));
    coverage.insert("cases_killed_process".into(), json!(aborted_cases));
    coverage.insert("oracle_checks".into(), json!(merged.oracle_checks));
    coverage.insert("rejected_steps".into(), json!(merged.rejected));
    coverage.insert("max_depth".into(), json!(merged.max_depth));
    coverage.insert("wall_cap_hit".into(), json!(merged.capped));
    coverage.insert("wall_cap_s".into(), json!(wall_s));
    coverage.insert("workers".into(), json!(nshards));
    coverage.insert("counters".into(), json!(merged.counters));
    let sigs: Vec<&String> = merged.signatures.iter().take(60).collect();
    coverage.insert("behaviour_signatures_seen".into(), json!(sigs));
    coverage.insert("oracle_failures_by_key".into(), json!(merged.violation_counts));
    coverage.insert("known_findings_reproduced".into(), json!(known_hit.keys().collect::<Vec<_>>()));
    coverage.insert("notes".into(), json!(merged.notes));
    for (k, v) in prop.extra_coverage(&merged) {
        coverage.insert(k, v);
    }
    let evidence = json!({
        "property_id": id,
        "tier": tier.as_str(),
        "seed": seed,
        "level": prop.level(),
        "coverage": Value::Object(coverage),
        "assumptions": prop.assumptions(),
        "wall_s": wall,
        "violations": reported.len(),
        "machinery_errors": machinery,
    });
    let evdir = root.join("evidence");
    let _ = std::fs::create_dir_all(&evdir);
    let evpath = evdir.join(format!("{}.json", id));
    if let Err(e) = std::fs::write(&evpath, serde_json::to_string_pretty(&evidence).unwrap() + "\n") {
        eprintln!("machinery: cannot write evidence {}: {e}", evpath.display());
        return RunResult { exit_code: 2 };
    }
    let _ = std::fs::remove_dir_all(&dir);

    println!(
        "[{}:{}] cases={} states={} transitions={} checks={} signatures={} validated={} exhaustive={} wall={:.1}s",
        id,
        tier.as_str(),
        merged.cases_claimed,
        merged.states,
        merged.transitions,
        merged.oracle_checks,
        merged.signatures.len(),
        merged.traces_validated,
        exhaustive,
        wall
    );
    for (k, what) in &known_hit {
        println!("KNOWN-FINDING: property={} {} [key={} occurrences={}]", id, what, k, merged.violation_counts.get(k).copied().unwrap_or(0));
    }
    if !machinery.is_empty() {
        for m in &machinery {
            eprintln!("MACHINERY-ERROR: {}", m);
        }
        // a machinery error is never a verdict
        for (key, path, what) in &reported {
            eprintln!("(suppressed because of machinery errors) candidate violation key={} replay={} {}", key, path.display(), what);
        }
        return RunResult { exit_code: 2 };
    }
    if !reported.is_empty() {
        for (key, path, what) in &reported {
            println!("VIOLATION property={} replay={}", id, path.display());
            println!("  key={} occurrences={} :: {}", key, merged.violation_counts.get(key).copied().unwrap_or(0), what);
        }
        return RunResult { exit_code: 1 };
    }
    RunResult { exit_code: 0 }
}

fn sanitize(s: &str) -> String {
    s.chars().map(|c| if c.is_ascii_alphanumeric() || c == '-' || c == '_' { c } else { '_' }).take(60).collect()
}

/// `mc replay <prop> <file>`: human-facing replay: twice, compare, print, exit 1 if violation reproduces
pub fn replay_cli(prop: &dyn Prop, file: &Path) -> i32 {
    let a = replay_subprocess(prop.id(), file, Duration::from_secs(600));
    let b = replay_subprocess(prop.id(), file, Duration::from_secs(600));
    match (a, b) {
        (Ok(a), Ok(b)) => {
            if a != b {
                eprintln!("MACHINERY-ERROR: replay is not deterministic");
                return 2;
            }
            println!("observation: {}", a.observation);
            if a.violations.is_empty() {
                println!("replay: no violation");
                0
            } else {
                for (k, w) in &a.violations {
                    println!("VIOLATION property={} replay={}", prop.id(), file.display());
                    println!("  key={} :: {}", k, w);
                }
                1
            }
        }
        (Err(e), _) | (_, Err(e)) => {
            eprintln!("MACHINERY-ERROR: {e}");
            2
        }
    }
}
