//! Explorer core: sharded, crash-isolated, exhaustive enumeration with evidence accounting.
//!
//! A *property module* enumerates a finite space of **cases** (a case = one input shape, or one
//! root configuration + first action of an operation-sequence tree).  Cases carry a deterministic
//! index; worker `w` of `W` runs the cases with `index % W == w`.  Each worker is a separate
//! single-threaded subprocess of `mc`, so that a non-unwinding abort inside altrios (UB check on
//! `get_unchecked`, allocation failure, stack overflow) or a hang is attributed to the case that
//! was running and the rest of the space is still explored (the parent restarts the worker behind
//! the failing case).  Unwinding panics are caught in the worker with `catch_unwind`.
//!
//! Nothing here samples: every case index in `0..n_cases` is claimed by exactly one worker, and
//! the parent verifies that the union of claimed indices is complete before it calls a run
//! exhaustive.

pub mod known;
pub mod parent;
pub mod seq;

use serde::{Deserialize, Serialize};
use serde_json::Value;
use std::collections::BTreeMap;
use std::collections::BTreeSet;
use std::io::Write;
use std::time::{Duration, Instant};

#[derive(Debug, Clone, Copy, PartialEq, Eq, Serialize, Deserialize)]
#[serde(rename_all = "lowercase")]
pub enum Tier {
    Quick,
    Thorough,
}
impl Tier {
    pub fn as_str(&self) -> &'static str {
        match self {
            Tier::Quick => "quick",
            Tier::Thorough => "thorough",
        }
    }
    pub fn is_thorough(&self) -> bool {
        *self == Tier::Thorough
    }
}

/// One oracle failure.
#[derive(Debug, Clone, Serialize, Deserialize)]
pub struct Violation {
    pub property: String,
    /// signature key `oracle-id@code-site:input-class` (matched against KNOWN_FINDINGS.txt)
    pub key: String,
    /// one-line human description (observed vs expected)
    pub what: String,
    /// the replayable case: everything `replay` needs to re-execute it without the explorer
    pub case: Value,
    /// size measure used to keep the smallest counterexample per key (depth, #deviations, …)
    pub size: u64,
}

/// Accumulated by a worker, merged by the parent.
#[derive(Debug, Default, Clone, Serialize, Deserialize)]
pub struct Stats {
    pub cases_claimed: u64,
    pub last_completed_case: Option<u64>,
    pub n_cases_total: Option<u64>,
    pub states: u64,
    pub transitions: u64,
    pub evaluations: u64,
    pub traces_validated: u64,
    pub oracle_checks: u64,
    pub rejected: u64,
    pub max_depth: u64,
    pub signatures: BTreeSet<String>,
    pub counters: BTreeMap<String, u64>,
    pub samples: Vec<Value>,
    pub violations: Vec<Violation>,
    /// number of oracle failures per key (all of them, not only the retained smallest ones)
    pub violation_counts: BTreeMap<String, u64>,
    pub capped: bool,
    pub notes: BTreeSet<String>,
    pub machinery_errors: Vec<String>,
}

impl Stats {
    pub fn merge(&mut self, o: Stats) {
        self.cases_claimed += o.cases_claimed;
        if self.n_cases_total.is_none() {
            self.n_cases_total = o.n_cases_total;
        } else if o.n_cases_total.is_some() && o.n_cases_total != self.n_cases_total {
            self.machinery_errors.push(format!(
                "workers disagree on the number of cases: {:?} vs {:?}",
                self.n_cases_total, o.n_cases_total
            ));
        }
        self.states += o.states;
        self.transitions += o.transitions;
        self.evaluations += o.evaluations;
        self.traces_validated += o.traces_validated;
        self.oracle_checks += o.oracle_checks;
        self.rejected += o.rejected;
        self.max_depth = self.max_depth.max(o.max_depth);
        self.signatures.extend(o.signatures);
        for (k, v) in o.counters {
            *self.counters.entry(k).or_insert(0) += v;
        }
        for s in o.samples {
            if self.samples.len() < 6 {
                self.samples.push(s);
            }
        }
        for v in o.violations {
            self.push_violation(v);
        }
        for (k, v) in o.violation_counts {
            *self.violation_counts.entry(k).or_insert(0) += v;
        }
        self.capped |= o.capped;
        self.notes.extend(o.notes);
        self.machinery_errors.extend(o.machinery_errors);
    }

    /// keep at most 3 violations per key, the smallest ones (ties: first found)
    pub fn push_violation(&mut self, v: Violation) {
        let same: Vec<usize> = self
            .violations
            .iter()
            .enumerate()
            .filter(|(_, x)| x.key == v.key)
            .map(|(i, _)| i)
            .collect();
        if same.len() < 3 {
            self.violations.push(v);
        } else {
            let (imax, smax) = same
                .iter()
                .map(|&i| (i, self.violations[i].size))
                .max_by_key(|x| x.1)
                .unwrap();
            if v.size < smax {
                self.violations[imax] = v;
            }
        }
    }
}

/// Worker-side context.
pub struct Ctx {
    pub tier: Tier,
    pub shard: u64,
    pub nshards: u64,
    pub seed: u64,
    pub property: String,
    pub stats: Stats,
    /// resume: skip every case index < resume_from
    pub resume_from: u64,
    /// case indices known to kill the process: never run again
    pub skip: BTreeSet<u64>,
    pub out_path: Option<std::path::PathBuf>,
    pub cur_path: Option<std::path::PathBuf>,
    pub viol_path: Option<std::path::PathBuf>,
    pub deadline: Instant,
    last_flush: Instant,
    next_case: u64,
    cur_case: Option<u64>,
    pub sample_cap: usize,
    /// when set, only this case index is run (used by `--only-case`)
    pub only_case: Option<u64>,
    cur_file: Option<std::fs::File>,
    cur_len: usize,
}

impl Ctx {
    pub fn new(property: &str, tier: Tier, shard: u64, nshards: u64, seed: u64, wall: Duration) -> Self {
        Ctx {
            tier,
            shard,
            nshards,
            seed,
            property: property.to_string(),
            stats: Stats::default(),
            resume_from: 0,
            skip: BTreeSet::new(),
            out_path: None,
            cur_path: None,
            viol_path: None,
            deadline: Instant::now() + wall,
            last_flush: Instant::now(),
            next_case: 0,
            cur_case: None,
            sample_cap: 3,
            only_case: None,
            cur_file: None,
            cur_len: 0,
        }
    }

    /// Called by a property module for every case of its enumeration, in a fixed order.
    /// Returns true iff this worker has to run the case now.
    pub fn claim(&mut self) -> bool {
        // the previous case (if any) is complete
        if let Some(c) = self.cur_case.take() {
            self.stats.last_completed_case = Some(c);
        }
        let idx = self.next_case;
        self.next_case += 1;
        if let Some(only) = self.only_case {
            if idx != only {
                return false;
            }
        } else {
            // rotate shard assignment with the seed so capped runs differ in what they cover first
            // scatter case indices over the shards (a plain modulus lines up with the period of nested
            // enumerations and puts all heavy cases on a few shards)
            let h = idx.wrapping_mul(0x9E37_79B9_7F4A_7C15) >> 29;
            if (h + self.seed) % self.nshards != self.shard {
                return false;
            }
            if idx < self.resume_from || self.skip.contains(&idx) {
                return false;
            }
        }
        if Instant::now() > self.deadline {
            self.stats.capped = true;
            return false;
        }
        if self.last_flush.elapsed() > Duration::from_millis(500) {
            self.flush();
        }
        self.cur_case = Some(idx);
        self.write_cur(&format!("{:020}\n", idx));
        self.stats.cases_claimed += 1;
        true
    }

    /// one positioned write into the already open file; survives an abort of this process
    fn write_cur(&mut self, txt: &str) {
        use std::os::unix::fs::FileExt;
        if self.cur_file.is_none() {
            if let Some(p) = &self.cur_path {
                self.cur_file = std::fs::OpenOptions::new().create(true).write(true).truncate(true).open(p).ok();
            }
        }
        if let Some(f) = &self.cur_file {
            let _ = f.write_all_at(txt.as_bytes(), 0);
            if self.cur_len != txt.len() {
                let _ = f.set_len(txt.len() as u64);
                self.cur_len = txt.len();
            }
        }
    }

    /// attach a replayable descriptor to the running case (used when the case kills the process)
    pub fn describe(&mut self, desc: &Value) {
        if let Some(idx) = self.cur_case {
            self.write_cur(&format!("{:020}\n{}\n", idx, desc));
        }
    }

    pub fn case_index(&self) -> u64 {
        self.cur_case.unwrap_or(u64::MAX)
    }

    /// Must be called once after the enumeration loop.
    pub fn finish(&mut self) {
        if let Some(c) = self.cur_case.take() {
            self.stats.last_completed_case = Some(c);
        }
        self.stats.n_cases_total = Some(self.next_case);
        self.write_cur("done\n");
        self.flush();
    }

    pub fn out_of_time(&mut self) -> bool {
        if Instant::now() > self.deadline {
            self.stats.capped = true;
            true
        } else {
            false
        }
    }

    pub fn flush(&mut self) {
        self.last_flush = Instant::now();
        if let Some(p) = &self.out_path {
            let tmp = p.with_extension("tmp");
            if let Ok(mut f) = std::fs::File::create(&tmp) {
                let _ = f.write_all(serde_json::to_string(&self.stats).unwrap().as_bytes());
                let _ = std::fs::rename(&tmp, p);
            }
        }
    }

    #[inline]
    pub fn state(&mut self) {
        self.stats.states += 1;
    }
    #[inline]
    pub fn transition(&mut self) {
        self.stats.transitions += 1;
    }
    #[inline]
    pub fn evaluation(&mut self) {
        self.stats.evaluations += 1;
    }
    #[inline]
    pub fn checks(&mut self, n: u64) {
        self.stats.oracle_checks += n;
    }
    #[inline]
    pub fn depth(&mut self, d: u64) {
        if d > self.stats.max_depth {
            self.stats.max_depth = d;
        }
    }
    pub fn validated(&mut self) {
        self.stats.traces_validated += 1;
    }
    pub fn sig(&mut self, s: &str) {
        if !self.stats.signatures.contains(s) {
            self.stats.signatures.insert(s.to_string());
        }
    }
    pub fn count(&mut self, k: &str) {
        if let Some(c) = self.stats.counters.get_mut(k) {
            *c += 1;
        } else {
            self.stats.counters.insert(k.to_string(), 1);
        }
    }
    pub fn count_n(&mut self, k: &str, n: u64) {
        *self.stats.counters.entry(k.to_string()).or_insert(0) += n;
    }
    pub fn note(&mut self, s: &str) {
        self.stats.notes.insert(s.to_string());
    }
    pub fn sample(&mut self, f: impl FnOnce() -> Value) {
        if self.shard == 0 && self.stats.samples.len() < self.sample_cap {
            self.stats.samples.push(f());
        }
    }
    pub fn machinery_error(&mut self, s: String) {
        self.stats.machinery_errors.push(s);
    }

    pub fn violation(&mut self, key: &str, what: String, case: Value, size: u64) {
        let n = {
            let c = self.stats.violation_counts.entry(key.to_string()).or_insert(0);
            *c += 1;
            *c
        };
        // keep (and journal) only candidates that can end up among the 3 smallest of their key
        let worst = self.stats.violations.iter().filter(|v| v.key == key).map(|v| v.size).max();
        let retained = self.stats.violations.iter().filter(|v| v.key == key).count();
        if retained >= 3 && worst.map(|w| size >= w).unwrap_or(false) {
            return;
        }
        let _ = n;
        let v = Violation {
            property: self.property.clone(),
            key: key.to_string(),
            what,
            case,
            size,
        };
        // journal immediately: survives an abort later in this worker
        if let Some(p) = &self.viol_path {
            if let Ok(mut f) = std::fs::OpenOptions::new().create(true).append(true).open(p) {
                let _ = writeln!(f, "{}", serde_json::to_string(&v).unwrap());
            }
        }
        self.stats.push_violation(v);
    }

    /// cheap pre-test so callers can avoid building the case JSON for violations that would be dropped
    pub fn wants_violation(&self, key: &str, size: u64) -> bool {
        let mut n = 0;
        let mut worst = 0;
        for v in &self.stats.violations {
            if v.key == key {
                n += 1;
                worst = worst.max(v.size);
            }
        }
        n < 3 || size < worst
    }
    pub fn count_violation_only(&mut self, key: &str) {
        *self.stats.violation_counts.entry(key.to_string()).or_insert(0) += 1;
    }
}

/// Outcome of a straight-line replay of one case (no explorer involved).
#[derive(Debug, Clone, PartialEq, Serialize, Deserialize)]
pub struct ReplayOutcome {
    /// violations the oracle reports on this case: (key, what)
    pub violations: Vec<(String, String)>,
    /// canonical observation string; two replays of the same case must agree on it
    pub observation: String,
}

pub struct Level {
    pub category: &'static str,
}

/// One property's check.
pub trait Prop: Sync {
    fn id(&self) -> &'static str;
    /// evidence level: "model_checking" or "fault_enumeration"
    fn level(&self) -> &'static str {
        "model_checking"
    }
    /// how cases are enumerated / what counts as distinct non-trivial
    fn rule(&self, tier: Tier) -> String;
    fn assumptions(&self) -> Vec<String>;
    /// wall cap (seconds) for the exploration per tier; the engine reports when it bites
    fn wall_cap_s(&self, tier: Tier) -> u64 {
        match tier {
            Tier::Quick => 150,
            Tier::Thorough => 3600,
        }
    }
    /// true for a property that is itself about reproducibility (C18): an oracle failure seen by the explorer that a
    /// fresh process does not show again (or shows differently from run to run) is then a violation of the property,
    /// not a fault of the machinery
    fn irreproducibility_is_violation(&self) -> bool {
        false
    }
    /// enumerate the space; call `ctx.claim()` per case; call `ctx.finish()` at the end
    fn explore(&self, ctx: &mut Ctx);
    /// re-execute one case straight-line and apply the oracle
    fn replay(&self, case: &Value) -> ReplayOutcome;
    /// optional: extra evidence keys computed by the parent after the merge
    fn extra_coverage(&self, _stats: &Stats) -> BTreeMap<String, Value> {
        BTreeMap::new()
    }
    /// optional parent-side step run once (not sharded), e.g. binding to the real parallel loop
    fn parent_step(&self, _tier: Tier, _stats: &mut Stats) {}
}

/// catch an unwinding panic of the subject; returns Err(message)
pub fn guarded<T>(f: impl FnOnce() -> T) -> Result<T, String> {
    let r = std::panic::catch_unwind(std::panic::AssertUnwindSafe(f));
    match r {
        Ok(v) => Ok(v),
        Err(e) => {
            let msg = if let Some(s) = e.downcast_ref::<&str>() {
                s.to_string()
            } else if let Some(s) = e.downcast_ref::<String>() {
                s.clone()
            } else {
                "non-string panic payload".to_string()
            };
            Err(msg)
        }
    }
}

/// silence the default panic hook output (the subject's panics are data here)
pub fn quiet_panics() {
    // MC_LOUD=1 keeps the default hook (message + backtrace on stderr) for debugging one replay
    if std::env::var("MC_LOUD").is_ok() {
        return;
    }
    std::panic::set_hook(Box::new(|_| {}));
}

/// relative/absolute band of DESIGN §1.6
#[inline]
pub fn close(a: f64, b: f64, scale: f64) -> bool {
    if a == b {
        return true;
    }
    if !a.is_finite() || !b.is_finite() {
        return false;
    }
    (a - b).abs() <= 1e-9 * a.abs().max(b.abs()) + 1e-9 * scale.abs()
}
#[inline]
pub fn close_tol(a: f64, b: f64, rel: f64, abs: f64) -> bool {
    if a == b {
        return true;
    }
    if !a.is_finite() || !b.is_finite() {
        return false;
    }
    (a - b).abs() <= rel * a.abs().max(b.abs()) + abs
}
