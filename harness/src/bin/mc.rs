use altrios_mc::engine::{parent, quiet_panics, Ctx, Tier};
use altrios_mc::props;
use std::path::PathBuf;
use std::time::Duration;

fn tier_of(s: &str) -> Tier {
    match s {
        "thorough" => Tier::Thorough,
        _ => Tier::Quick,
    }
}

fn arg_val(args: &[String], name: &str) -> Option<String> {
    let pre = format!("--{}=", name);
    args.iter().find(|a| a.starts_with(&pre)).map(|a| a[pre.len()..].to_string())
}

fn main() {
    let args: Vec<String> = std::env::args().collect();
    if args.len() < 2 {
        eprintln!("usage: mc run <Cnn> <quick|thorough> | replay <Cnn> <file> | selftest");
        std::process::exit(2);
    }
    let seed: u64 = std::env::var("VERIF_SEED").ok().and_then(|s| s.parse::<i64>().ok()).map(|x| x as u64).unwrap_or(0);
    match args[1].as_str() {
        "selftest" => match altrios_mc::engine::seq::selftest() {
            Ok(()) => println!("selftest ok"),
            Err(e) => {
                eprintln!("selftest failed: {e}");
                std::process::exit(2);
            }
        },
        "run" => {
            let Some(p) = props::get(&args[2]) else {
                eprintln!("unknown property {}", args[2]);
                std::process::exit(2);
            };
            let tier = tier_of(args.get(3).map(|s| s.as_str()).unwrap_or("quick"));
            if let Err(e) = altrios_mc::engine::seq::selftest() {
                eprintln!("MACHINERY-ERROR: explorer selftest failed: {e}");
                std::process::exit(2);
            }
            let r = parent::run_check(p.as_ref(), tier, seed);
            std::process::exit(r.exit_code);
        }
        "worker" => {
            quiet_panics();
            let p = props::get(&args[2]).expect("unknown property");
            let tier = tier_of(&args[3]);
            let shard = arg_val(&args, "shard").unwrap().parse().unwrap();
            let nshards = arg_val(&args, "nshards").unwrap().parse().unwrap();
            let seed = arg_val(&args, "seed").unwrap().parse().unwrap();
            let wall: u64 = arg_val(&args, "wall").unwrap().parse().unwrap();
            let mut ctx = Ctx::new(p.id(), tier, shard, nshards, seed, Duration::from_secs(wall));
            ctx.out_path = arg_val(&args, "out").map(PathBuf::from);
            ctx.cur_path = arg_val(&args, "cur").map(PathBuf::from);
            ctx.viol_path = arg_val(&args, "viol").map(PathBuf::from);
            ctx.resume_from = arg_val(&args, "resume-from").and_then(|s| s.parse().ok()).unwrap_or(0);
            if let Some(s) = arg_val(&args, "skip") {
                for t in s.split(',').filter(|t| !t.is_empty()) {
                    ctx.skip.insert(t.parse().unwrap());
                }
            }
            p.explore(&mut ctx);
            ctx.flush();
        }
        "replay-json" => {
            quiet_panics();
            let p = props::get(&args[2]).expect("unknown property");
            let txt = std::fs::read_to_string(&args[3]).expect("cannot read replay file");
            let doc: serde_json::Value = serde_json::from_str(&txt).expect("replay file is not JSON");
            let case = doc.get("case").cloned().unwrap_or(doc);
            let out = p.replay(&case);
            println!("{}", serde_json::to_string(&out).unwrap());
        }
        "replay" => {
            let p = props::get(&args[2]).expect("unknown property");
            std::process::exit(parent::replay_cli(p.as_ref(), &PathBuf::from(&args[3])));
        }
        other => {
            eprintln!("unknown command {other}");
            std::process::exit(2);
        }
    }
}
