//! SpeedLimitLab: E-SHAPE over routes x restriction patterns x grades x trains x extension schedules, each executed by
//! a real `SpeedLimitTrainSim` (built by `TrainSimBuilder::make_speed_limit_train_sim`).  Oracles: C03, and the
//! speed-limited halves of C07 / C11 / C12 (incl. the backward evaluation stored in the braking points).

use crate::domain::net::*;
use crate::domain::train::*;
use crate::engine::{close_tol, guarded, Ctx, ReplayOutcome, Tier};
use crate::props::setspeed_lab::{c11_common, state_c07, state_c12, Refs, G, RHO};
use crate::refmodel::geometry::RouteRef;
use altrios_core::meet_pass::est_times::make_est_times;
use altrios_core::track::Network;
use altrios_core::train::{InitTrainState, LinkIdxTime, SpeedLimitTrainSim};
use altrios_core::traits::Mass;
use altrios_core::uc;
use serde::{Deserialize, Serialize};
use serde_json::Value;

pub const CUTS: [f64; 5] = [600.0, 1200.0, 1300.0, 1500.0, 2400.0];
pub const SPEEDS: [f64; 3] = [5.0, 10.0, 15.0];
pub const TOTAL: f64 = 3000.0;

#[derive(Debug, Clone, Serialize, Deserialize, PartialEq)]
pub enum Mode {
    /// whole path, finish(), then the stepping loop of walk()
    Whole,
    /// extend link by link when the front is within `threshold` metres of the end of authority
    LinkByLink { threshold: f64 },
    /// the real walk_timed_path with all entries at the departure time except entry `delayed` (+delay s)
    Timed { delayed: usize, delay: f64 },
    /// make_est_times (runs the same stepping internally)
    EstTimes,
}

#[derive(Debug, Clone, Serialize, Deserialize, PartialEq)]
pub struct SlCase {
    /// marker so that replay can tell the case kinds apart
    pub sl: bool,
    /// link lengths (sum = 3000 m)
    pub link_len: Vec<f64>,
    /// global speed zones (start, end, speed)
    pub zones: Vec<(f64, f64, f64)>,
    /// 0 flat, 1 +1.5 %, 2 -1.5 %, 3 vee, 4 -1.5 % easing to -0.9 %, 5 -0.3/-1.5/-0.9 %/flat, 6 summit (+2 % / -2 % at 2100 m), 7 crest (level, then -2 % from 1900 m)
    pub grade: u8,
    pub head_end: bool,
    pub train: TrainSpec,
    pub t0: f64,
    pub mode: Mode,
    /// friction-brake ramp-up time in s (None: what TrainSimBuilder hard-codes, 0 s = full force at once)
    #[serde(default)]
    pub brake_ramp: Option<f64>,
    /// bit k set: zone k is posted with a NEGATIVE (sign-flagged) speed of the same magnitude -- the library keeps the
    /// sign as a flag (min_speed) and enforces the magnitude (braking points take abs())
    #[serde(default)]
    pub neg: u8,
    /// speed set gated by a train-parameter condition (0 = unconditional).  Thresholds are placed relative to THIS
    /// train: 1 MassTotal > midway(mass per brake, towed mass) [applies], 2 MassTotal > 2 x towed mass [does not],
    /// 3 MassPerBrake > midway [does not], 4 MassPerBrake <= mass per brake (equality) [applies],
    /// 5 AxleCount >= axle count (equality) [applies], 6 AxleCount < axle count [does not]
    #[serde(default)]
    pub gate: u8,
}

/// the gating condition of the case's speed sets and whether it holds for the case's train (reference evaluation)
pub fn gate_param(c: &SlCase) -> Option<(altrios_core::track::SpeedParam, bool)> {
    use altrios_core::track::{CompareType as C, LimitType as L, SpeedParam};
    if c.gate == 0 {
        return None;
    }
    let tp = train_config(&c.train).make_train_params().ok()?;
    let (total, mpb, axles) = (tp.towed_mass_static.value, tp.mass_per_brake.value, tp.axle_count as f64);
    let mid = 0.5 * (total + mpb);
    let (limit_type, compare_type, limit_val, applies) = match c.gate {
        1 => (L::MassTotal, C::TpGreaterThanRp, mid, total > mid),
        2 => (L::MassTotal, C::TpGreaterThanRp, 2.0 * total, false),
        3 => (L::MassPerBrake, C::TpGreaterThanRp, mid, mpb > mid),
        4 => (L::MassPerBrake, C::TpLessThanEqualRp, mpb, true),
        5 => (L::AxleCount, C::TpGreaterThanEqualRp, axles, true),
        _ => (L::AxleCount, C::TpLessThanRp, axles, false),
    };
    Some((SpeedParam { limit_val, limit_type, compare_type }, applies))
}
/// the zones that bind this train (none when the gating condition fails)
pub fn effective_zones(c: &SlCase) -> Vec<(f64, f64, f64)> {
    match gate_param(c) {
        Some((_, false)) => vec![],
        _ => c.zones.clone(),
    }
}

fn elev_at(grade: u8, x: f64) -> f64 {
    match grade {
        0 => 100.0,
        1 => 100.0 + 0.015 * x,
        2 => 100.0 - 0.015 * x,
        3 => {
            if x <= TOTAL / 2.0 {
                100.0 - 0.015 * x
            } else {
                100.0 - 0.015 * (TOTAL / 2.0) + 0.015 * (x - TOTAL / 2.0)
            }
        }
        4 => {
            // steep downgrade easing off while still clearly downhill: -1.5 % then -0.9 %
            if x <= TOTAL / 2.0 {
                100.0 - 0.015 * x
            } else {
                100.0 - 0.015 * (TOTAL / 2.0) - 0.009 * (x - TOTAL / 2.0)
            }
        }
        6 => {
            // summit 900 m before the end of the path: +2 % up to 2100 m, then -2 % (the head of a long train is already on
            // the downgrade, its tail still on the climb, while it brakes for the end of its path)
            if x <= 2100.0 {
                100.0 + 0.02 * x
            } else {
                100.0 + 0.02 * 2100.0 - 0.02 * (x - 2100.0)
            }
        }
        7 => {
            // crest from level track onto a 2 % downgrade at 1900 m
            if x <= 1900.0 {
                100.0
            } else {
                100.0 - 0.02 * (x - 1900.0)
            }
        }
        _ => {
            // -0.3 %, -1.5 %, -0.9 %, flat (breaks at 750 / 1500 / 2250 m)
            let seg = [(0.0, -0.003), (750.0, -0.015), (1500.0, -0.009), (2250.0, 0.0)];
            let mut e = 100.0;
            for (k, (x0, g)) in seg.iter().enumerate() {
                let x1 = if k + 1 < seg.len() { seg[k + 1].0 } else { f64::INFINITY };
                if x > *x0 {
                    e += g * (x.min(x1) - x0);
                }
            }
            e
        }
    }
}

/// elevation breakpoints of a grade kind (path offsets)
fn grade_breaks(grade: u8) -> Vec<f64> {
    match grade {
        3 | 4 => vec![TOTAL / 2.0],
        5 => vec![750.0, 1500.0, 2250.0],
        6 => vec![2100.0],
        7 => vec![1900.0],
        _ => vec![],
    }
}

pub fn build_network(c: &SlCase) -> Network {
    let mut fwd = vec![];
    let mut base = 0.0;
    let n = c.link_len.len();
    for (i, &len) in c.link_len.iter().enumerate() {
        let mut f = FwdLink::new(len, 20.0);
        f.prev = i;
        f.next = if i + 1 < n { i + 2 } else { 0 };
        // elevation points: link ends + the vee bottom if inside
        let mut pts = vec![(0.0, elev_at(c.grade, base))];
        for b in grade_breaks(c.grade) {
            if base < b && b < base + len {
                pts.push((b - base, elev_at(c.grade, b)));
            }
        }
        pts.push((len, elev_at(c.grade, base + len)));
        f.elevs = pts;
        let mut lims = vec![];
        for (zi, (s, e, v)) in c.zones.iter().enumerate() {
            let (a, b) = (s.max(base), e.min(base + len));
            if a < b {
                lims.push((a - base, b - base, if c.neg & (1 << zi) != 0 { -*v } else { *v }));
            }
        }
        f.speed_limits = lims;
        f.head_end = c.head_end;
        fwd.push(f);
        base += len;
    }
    let mut net = build_topology(&fwd, false, SetStyle::Single);
    if let Some((p, _)) = gate_param(c) {
        for l in net.0.iter_mut().skip(1) {
            if let Some(ss) = l.speed_set.as_mut() {
                ss.speed_params.push(p.clone());
            }
        }
    }
    net
}

pub fn build_sim(c: &SlCase, net: &Network) -> Result<SpeedLimitTrainSim, String> {
    let _ = net;
    let n = c.link_len.len();
    let lm = location_map(&[("A", vec![1]), ("B", vec![n])]);
    let b = builder(&c.train, Some(("A", "B")), Some(InitTrainState::new(Some(c.t0 * uc::S), None, None)), Some(1));
    let mut sim = b.make_speed_limit_train_sim(&lm, Some(1), None, None).map_err(|e| format!("{e:#}"))?;
    if let Some(r) = c.brake_ramp {
        sim.fric_brake.ramp_up_time = r * uc::S;
    }
    Ok(sim)
}

/// reference enforced limit at front position x (posted restrictions, tail-end extended by train length, speed_max);
/// at an exact breakpoint the larger neighbour is allowed
pub fn ref_limit(c: &SlCase, train_len: f64, speed_max: f64, x: f64) -> f64 {
    let add = if c.head_end { 0.0 } else { train_len };
    let zones = effective_zones(c);
    let at = |x: f64| {
        let mut v = speed_max;
        for (s, e, sp) in &zones {
            if *s <= x && x < *e + add && *sp < v {
                v = *sp;
            }
        }
        v
    };
    at(x).max(at(x - 1e-6)).max(at(x + 1e-6))
}

pub type Fails = Vec<(String, String)>;

pub struct Run {
    pub fails: Fails,
    pub steps: u64,
    pub checks: u64,
    pub outcome: String,
    pub sig: String,
    pub validated: bool,
    pub machinery: Option<String>,
    pub err_full: String,
    /// friction brake behaviour seen: bit0 applied, bit1 reduced while still braking
    pub fric: u8,
}

fn panic_class(msg: &str) -> String {
    if msg.contains("Speed limit violated") {
        "overspeed-assert@braking_point.rs:calc_speeds".into()
    } else if msg.contains("index out of bounds") || msg.contains("subtract with overflow") {
        "index-panic".into()
    } else {
        format!("panic:{}", msg.chars().take(40).collect::<String>().replace(' ', "_"))
    }
}

/// input class for the known overspeed finding: the EFFECTIVE limit profile (posted zones, tail-end zones extended by
/// the train length) has a higher-speed window of at most 300 m between two slower sections
fn window_class(c: &SlCase) -> &'static str {
    let len = crate::domain::train::train_ref(&c.train).length;
    let add = if c.head_end { 0.0 } else { len };
    let mut bps: Vec<f64> = vec![];
    let zones = effective_zones(c);
    for (s, e, _) in &zones {
        bps.push(*s);
        bps.push(*e + add);
    }
    bps.sort_by(|a, b| a.partial_cmp(b).unwrap());
    bps.dedup();
    let total: f64 = c.link_len.iter().sum();
    let at = |x: f64| {
        let mut v = 20.0f64;
        for (s, e, sp) in &zones {
            if *s <= x && x < *e + add && *sp < v {
                v = *sp;
            }
        }
        v
    };
    // merged segments (start, end, value) inside the path
    let mut segs: Vec<(f64, f64, f64)> = vec![];
    for w in bps.windows(2) {
        if w[0] >= total {
            break;
        }
        let v = at(0.5 * (w[0] + w[1]));
        if let Some(l) = segs.last_mut() {
            if l.2 == v {
                l.1 = w[1];
                continue;
            }
        }
        segs.push((w[0], w[1], v));
    }
    for w in segs.windows(3) {
        if w[1].2 > w[0].2 && w[1].2 > w[2].2 && (w[1].1 - w[1].0) <= 300.0 {
            return "short-fast-window";
        }
    }
    "no-short-fast-window"
}

fn check_state_c03(c: &SlCase, st: &altrios_core::train::TrainState, speed_max: f64, checks: &mut u64, f: &mut Fails) {
    let v = st.speed.value;
    *checks += 4;
    if !(v >= 0.0) {
        f.push(("negative-speed@SpeedLimitTrainSim::solve_required_pwr".into(), format!("speed {v} at offset {}", st.offset.value)));
    }
    let lim = ref_limit(c, st.length.value, speed_max, st.offset.value);
    if v > lim * (1.0 + 1e-9) + 1e-9 {
        f.push((format!("speed-above-posted-limit@SpeedLimitTrainSim:{}", window_class(c)), format!("speed {v} m/s at front position {} m where the tightest posted limit is {lim} m/s", st.offset.value)));
    }
    if v > st.speed_limit.value * (1.0 + 1e-9) + 1e-9 {
        f.push((format!("speed-above-own-limit-column@SpeedLimitTrainSim:{}", window_class(c)), format!("speed {v} > speed_limit {}", st.speed_limit.value)));
    }
    if st.speed_target.value > st.speed_limit.value * (1.0 + 1e-9) + 1e-9 {
        f.push((format!("target-above-limit@BrakingPoints::calc_speeds:{}", window_class(c)), format!("speed_target {} > speed_limit {}", st.speed_target.value, st.speed_limit.value)));
    }
}

fn end_checks(sim: &SpeedLimitTrainSim, checks: &mut u64, f: &mut Fails) {
    *checks += 3;
    let end = sim.offset_end().value;
    let o = sim.state.offset.value;
    if o > end + 1e-6 {
        f.push(("stopped-beyond-end-of-path@SpeedLimitTrainSim::walk".into(), format!("offset {o} > path end {end}")));
    }
    if sim.state.speed.value != 0.0 {
        f.push(("not-at-rest-at-end@SpeedLimitTrainSim::walk".into(), format!("final speed {}", sim.state.speed.value)));
    }
    if o < end - 1000.0 * 0.3048 - 1e-6 {
        f.push(("stopped-outside-stopping-window@SpeedLimitTrainSim::walk".into(), format!("offset {o}, path end {end}")));
    }
}

/// braking points (serialized view): consecutive "normal" points must satisfy the backward kinematics with the
/// reference resistance at (offset, speed)
fn braking_point_checks(sim: &SpeedLimitTrainSim, r: &Refs, checks: &mut u64, f: &mut Fails) {
    let v = match serde_json::to_value(sim) {
        Ok(v) => v,
        Err(_) => return,
    };
    let pts = match v.get("braking_points").and_then(|b| b.get("points")).and_then(|p| p.as_array()) {
        Some(p) => p.clone(),
        None => return,
    };
    let get = |p: &Value, k: &str| p.get(k).and_then(|x| x.as_f64()).unwrap_or(f64::NAN);
    let fmax = sim.fric_brake.force_max.value;
    let m = sim.state.mass_static.value + sim.state.mass_rot.value;
    let w = G * (r.train.towed_mass + r.consist_mass);
    let len = r.train.length;
    let dt = sim.state.dt.value;
    for pr in pts.windows(2) {
        let (x0, v0) = (get(&pr[0], "offset"), get(&pr[0], "speed_limit"));
        let (x1, v1) = (get(&pr[1], "offset"), get(&pr[1], "speed_limit"));
        if !(x0.is_finite() && x1.is_finite() && v0.is_finite() && v1.is_finite()) {
            continue;
        }
        let dv = v1 - v0;
        // a normal braking-curve point: offset consistent with dt*(v0 + dv/2) and dv > 0
        if dv <= 0.0 || !close_tol(x0 - x1, dt * (v0 + 0.5 * dv), 1e-9, 1e-9) {
            continue;
        }
        let rear = x0 - len;
        if rear < 0.0 {
            continue;
        }
        let res = r.train.rolling_ratio * w + r.train.bearing + r.train.davis_b * v0 * w + r.train.cd_area * RHO * v0 * v0 + w * (r.route.e_at(x0) - r.route.e_at(rear)) / len + w * (r.route.c_at(x0) - r.route.c_at(rear)) / len;
        let want = dt * (fmax + res) / m;
        *checks += 1;
        if !close_tol(dv, want, 1e-7, 1e-9) {
            f.push(("braking-curve-uses-wrong-resistance@BrakingPoints::recalc".into(), format!("braking point at offset {x0} m, speed {v0}: curve steps by {dv} m/s per dt but dt*(F_brake_max + res_net)/m_compound with the resistance at that position is {want}")));
            break;
        }
    }
}

pub fn execute(c: &SlCase, which: &str) -> Run {
    let mut run = Run { fails: vec![], steps: 0, checks: 0, outcome: String::new(), sig: String::new(), validated: false, machinery: None, err_full: String::new(), fric: 0 };
    let net = build_network(c);
    let n = c.link_len.len();
    let tp = train_config(&c.train).make_train_params().unwrap();
    let seq: Vec<usize> = (1..=n).collect();
    let r = Refs { route: RouteRef::new(&net.0, &seq, &tp), train: train_ref(&c.train), consist_mass: consist(c.train.consist, Some(1)).mass().unwrap().map(|m| m.value).unwrap_or(0.0) };
    let speed_max = tp.speed_max.value;
    let mut sim = match build_sim(c, &net) {
        Ok(s) => s,
        Err(e) => {
            run.fails.push(("valid-train-rejected@TrainSimBuilder::make_speed_limit_train_sim".into(), e));
            return run;
        }
    };
    let all: Vec<_> = seq.iter().map(|&i| lidx(i)).collect();
    let want_c03 = which == "C03";
    let mut per_step = |p: &SpeedLimitTrainSim, s: &SpeedLimitTrainSim, run: &mut Run| {
        let mut checks = 0u64;
        match which {
            "C03" => check_state_c03(c, &s.state, speed_max, &mut checks, &mut run.fails),
            "C07" => run.fails.extend(state_c07(&r, p.state.offset.value, p.state.speed.value, &s.state, &mut checks, "speed-limited")),
            "C11" => run.fails.extend(c11_common(&s.state, &s.loco_con, &mut checks, "speed-limited")),
            "C12" => run.fails.extend(state_c12(&r, &p.state, &s.state, s.state.dt.value, &mut checks, "speed-limited")),
            _ => {}
        }
        run.checks += checks;
        run.steps += 1;
        if s.fric_brake.state.force.value > 0.0 {
            run.fric |= 1;
        }
        if s.fric_brake.state.force.value < p.fric_brake.state.force.value && s.state.pwr_whl_out.value <= 0.0 && s.fric_brake.state.force.value > 0.0 {
            run.fric |= 2;
        }
        if p.fric_brake.state.force.value > 0.0 && s.fric_brake.state.force.value > 0.0 && s.state.pwr_whl_out.value == 0.0 {
            run.fric |= 4;
        }
    };
    let cond = |s: &SpeedLimitTrainSim| s.state.offset < s.offset_end() - 1000.0 * uc::FT || (s.state.offset < s.offset_end() && s.state.speed.value != 0.0);
    let res: Result<Result<(), String>, String> = match &c.mode {
        Mode::Whole | Mode::LinkByLink { .. } => guarded(|| -> Result<(), String> {
            let mut next = 0usize;
            let threshold = match &c.mode {
                Mode::LinkByLink { threshold } => Some(*threshold),
                _ => None,
            };
            if threshold.is_none() {
                sim.extend_path(&net.0, &all).map_err(|e| format!("{e:#}"))?;
                sim.finish();
                next = n;
            } else {
                sim.extend_path(&net.0, &all[..1]).map_err(|e| format!("{e:#}"))?;
                next = 1;
            }
            let mut guard = 0u64;
            loop {
                // extension schedule: extend when the front is within `threshold` of the end of authority
                if let Some(th) = threshold {
                    while next < n && sim.state.offset.value >= sim.offset_end().value - th {
                        sim.extend_path(&net.0, &all[next..next + 1]).map_err(|e| format!("{e:#}"))?;
                        next += 1;
                        if next == n {
                            sim.finish();
                        }
                    }
                }
                if !cond(&sim) {
                    if next < n {
                        // stopped at the end of authority before the route was complete: extend now
                        sim.extend_path(&net.0, &all[next..next + 1]).map_err(|e| format!("{e:#}"))?;
                        next += 1;
                        if next == n {
                            sim.finish();
                        }
                        continue;
                    }
                    break;
                }
                let p = sim.clone();
                sim.step().map_err(|e| format!("{e:#}"))?;
                per_step(&p, &sim, &mut run);
                guard += 1;
                if guard > 20000 {
                    return Err("no termination within 20000 steps".into());
                }
            }
            Ok(())
        }),
        Mode::Timed { delayed, delay } => guarded(|| -> Result<(), String> {
            let tpth: Vec<LinkIdxTime> = (0..n).map(|k| LinkIdxTime::new(lidx(k + 1), (c.t0 + if k == *delayed { *delay } else { 0.0 }) * uc::S)).collect();
            sim.walk_timed_path(&net.0, &tpth).map_err(|e| format!("{e:#}"))?;
            Ok(())
        }),
        Mode::EstTimes => guarded(|| -> Result<(), String> {
            let (etn, _con) = make_est_times(sim.clone(), &net.0).map_err(|e| format!("{e:#}"))?;
            run.steps += etn.val.len() as u64;
            Ok(())
        }),
    };
    match res {
        Err(p) => {
            run.outcome = "panic".into();
            // how a run ends is C03's subject; the other properties only judge the steps that were taken
            if want_c03 { run.fails.push((format!("{}:{}", panic_class(&p), window_class(c)), format!("panic instead of Ok/Err: {}", p.chars().take(200).collect::<String>()))); }
        }
        Ok(Err(e)) => {
            run.outcome = format!("err:{}", e.lines().filter(|l| !l.trim_start().starts_with('[')).last().unwrap_or("").chars().take(48).collect::<String>());
            run.err_full = e.clone();
            run.checks += 1;
            if want_c03 && e.trim().is_empty() {
                run.fails.push(("error-without-message@SpeedLimitTrainSim".into(), "empty error message".into()));
            }
            if want_c03 && e.contains("no termination") {
                run.fails.push(("non-termination@SpeedLimitTrainSim::walk".into(), e));
            }
        }
        Ok(Ok(())) => {
            run.outcome = "ok".into();
            match &c.mode {
                Mode::Timed { .. } => {
                    // oracle on the saved history rows
                    if want_c03 {
                        let rows = sim.history.state_vec();
                        for st in &rows {
                            let mut ck = 0;
                            check_state_c03(c, st, speed_max, &mut ck, &mut run.fails);
                            run.checks += ck;
                            run.steps += 1;
                        }
                        end_checks(&sim, &mut run.checks, &mut run.fails);
                    } else if which == "C12" || which == "C07" {
                        let rows = sim.history.state_vec();
                        for w in rows.windows(2) {
                            let mut ck = 0;
                            if which == "C12" {
                                run.fails.extend(state_c12(&r, &w[0], &w[1], w[1].dt.value, &mut ck, "timed-path"));
                            } else {
                                run.fails.extend(state_c07(&r, w[0].offset.value, w[0].speed.value, &w[1], &mut ck, "timed-path"));
                            }
                            run.checks += ck;
                            run.steps += 1;
                        }
                    }
                }
                Mode::EstTimes => {}
                _ => {
                    if want_c03 {
                        end_checks(&sim, &mut run.checks, &mut run.fails);
                    }
                    if which == "C07" {
                        braking_point_checks(&sim, &r, &mut run.checks, &mut run.fails);
                    }
                    if which == "C11" {
                        // trip-level getters = totals x documented annualization factor
                        let fuel = sim.loco_con.get_energy_fuel().value;
                        let res = sim.loco_con.get_net_energy_res().value;
                        let km = sim.state.total_dist.value / 1000.0;
                        let mgkm = sim.state.mass_freight.value / 1000.0 * km;
                        for (ann, days) in [(false, None), (true, None), (true, Some(7))] {
                            let mut s2 = sim.clone();
                            if days.is_some() {
                                // simulation_days is private: go through the serialized form
                                let mut v = serde_json::to_value(&s2).unwrap();
                                v["simulation_days"] = serde_json::json!(7);
                                s2 = match serde_json::from_value(v) {
                                    Ok(x) => x,
                                    Err(_) => continue,
                                };
                            }
                            let k = if ann { 365.25 / days.unwrap_or(1) as f64 } else { 1.0 };
                            run.checks += 5;
                            let ok = close_tol(s2.get_energy_fuel(ann).value, fuel * k, 1e-9, 1e-6)
                                && close_tol(s2.get_net_energy_res(ann).value, res * k, 1e-9, 1e-6)
                                && close_tol(s2.get_kilometers(ann), km * k, 1e-9, 1e-9)
                                && close_tol(s2.get_megagram_kilometers(ann), mgkm * k, 1e-9, 1e-9)
                                && close_tol(s2.get_scaling_factor(ann), k, 1e-12, 0.0);
                            if !ok {
                                run.fails.push(("trip-output-not-total-times-annualization@SpeedLimitTrainSim::get_*".into(), format!("annualize={ann} days={days:?}: fuel {} res {} km {} Mg-km {} vs totals {fuel} {res} {km} {mgkm} x {k}", s2.get_energy_fuel(ann).value, s2.get_net_energy_res(ann).value, s2.get_kilometers(ann), s2.get_megagram_kilometers(ann))));
                            }
                        }
                    }
                    if which == "C11" {
                        // fleet level: the vector of simulations reports the sums of its members' trip outputs
                        let mut s7 = sim.clone();
                        let mut v7 = serde_json::to_value(&s7).unwrap();
                        v7["simulation_days"] = serde_json::json!(7);
                        if let Ok(x) = serde_json::from_value(v7) {
                            s7 = x;
                        }
                        let fleet = altrios_core::train::SpeedLimitTrainSimVec(vec![sim.clone(), s7.clone(), sim.clone()]);
                        for ann in [false, true] {
                            run.checks += 4;
                            let members = [&sim, &s7, &sim];
                            let fuel: f64 = members.iter().map(|m| m.get_energy_fuel(ann).value).sum();
                            let res: f64 = members.iter().map(|m| m.get_net_energy_res(ann).value).sum();
                            let km: f64 = members.iter().map(|m| m.get_kilometers(ann)).sum();
                            let mgkm: f64 = members.iter().map(|m| m.get_megagram_kilometers(ann)).sum();
                            let ok = close_tol(fleet.get_energy_fuel(ann).value, fuel, 1e-9, 1e-6)
                                && close_tol(fleet.get_net_energy_res(ann).value, res, 1e-9, 1e-6)
                                && close_tol(fleet.get_kilometers(ann), km, 1e-9, 1e-9)
                                && close_tol(fleet.get_megagram_kilometers(ann), mgkm, 1e-9, 1e-9);
                            if !ok {
                                run.fails.push(("fleet-trip-output-not-sum-of-members@SpeedLimitTrainSimVec::get_*".into(), format!("annualize={ann}: fleet fuel {} res {} km {} Mg-km {} vs member sums {fuel} {res} {km} {mgkm}", fleet.get_energy_fuel(ann).value, fleet.get_net_energy_res(ann).value, fleet.get_kilometers(ann), fleet.get_megagram_kilometers(ann))));
                            }
                        }
                    }
                    if which == "C11" {
                        // the annualization period handed to EITHER builder entry point is the one the simulation reports with
                        let n = c.link_len.len();
                        let lm = location_map(&[("A", vec![1]), ("B", vec![n])]);
                        let b = builder(&c.train, Some(("A", "B")), Some(InitTrainState::new(Some(c.t0 * uc::S), None, None)), Some(1));
                        for (days, year) in [(Some(7), Some(2030)), (Some(7), None), (None, Some(2030)), (Some(30), Some(7))] {
                            let want = 365.25 / days.unwrap_or(1) as f64;
                            run.checks += 2;
                            let a = b.make_speed_limit_train_sim(&lm, Some(1), days, year).map(|s| s.get_scaling_factor(true));
                            let p = b.make_speed_limit_train_sim_and_parts(&lm, Some(1), days, year).map(|s| s.0.get_scaling_factor(true));
                            for (name, got) in [("make_speed_limit_train_sim", a), ("make_speed_limit_train_sim_and_parts", p)] {
                                match got {
                                    Ok(k) if close_tol(k, want, 1e-12, 0.0) => {}
                                    Ok(k) => run.fails.push((format!("annualization-period-not-the-one-given@TrainSimBuilder::{name}"), format!("simulation_days={days:?} scenario_year={year:?}: annualization factor {k}, documented 365.25 / simulation_days = {want}"))),
                                    Err(e) => run.fails.push((format!("valid-train-rejected@TrainSimBuilder::{name}"), format!("{e:#}"))),
                                }
                            }
                        }
                    }
                    // binding: the same schedule through the real walk() on a fresh object (whole-path mode)
                    if c.mode == Mode::Whole {
                        let mut fresh = build_sim(c, &net).unwrap();
                        let ok = guarded(|| -> bool {
                            if fresh.extend_path(&net.0, &all).is_err() {
                                return false;
                            }
                            fresh.finish();
                            fresh.walk().is_ok()
                        });
                        match ok {
                            Ok(true) => {
                                if fresh.state == sim.state && fresh.loco_con.state == sim.loco_con.state && fresh.history.len() == sim.history.len() + 1 {
                                    run.validated = true;
                                } else {
                                    run.machinery = Some(format!("SpeedLimitTrainSim::walk ends differently from the stepped exploration for {:?}", c));
                                }
                            }
                            _ => run.machinery = Some(format!("walk() failed where the stepped exploration succeeded for {:?}", c)),
                        }
                    }
                }
            }
        }
    }
    // keep one failure per key
    run.fails.sort_by(|a, b| a.0.cmp(&b.0));
    run.fails.dedup_by(|a, b| a.0 == b.0);
    run.sig = format!("{}:f{}:{}:g{}:{}:n{}:{:?}", run.outcome, run.fric, window_class(c), c.grade, if c.head_end { "head" } else { "tail" }, c.link_len.len(), std::mem::discriminant(&c.mode));
    run
}

fn zone_patterns(tier: Tier) -> Vec<Vec<(f64, f64, f64)>> {
    let mut v = vec![];
    for i in 0..CUTS.len() {
        for j in (i + 1)..CUTS.len() {
            for s1 in SPEEDS {
                for s2 in SPEEDS {
                    for s3 in SPEEDS {
                        v.push(vec![(0.0, CUTS[i], s1), (CUTS[i], CUTS[j], s2), (CUTS[j], TOTAL, s3)]);
                    }
                }
            }
        }
    }
    let _ = tier;
    v
}

pub fn trains() -> Vec<TrainSpec> {
    vec![
        TrainSpec { n_loaded: 10, n_empty: 0, davis: false, mass_override: None, length_override: None, consist: 2, cd_vec: false },
        TrainSpec { n_loaded: 30, n_empty: 30, davis: true, mass_override: None, length_override: None, consist: 3, cd_vec: false },
        // heavy train, weak dynamic brake: 60 loaded cars behind one conventional locomotive
        TrainSpec { n_loaded: 60, n_empty: 0, davis: false, mass_override: None, length_override: None, consist: 0, cd_vec: false },
    ]
}

pub fn rule(which: &str, tier: Tier) -> String {
    format!(
        "E-SHAPE: every 3-zone restriction profile over cut points {:?} m of a 3 km route with speeds {:?} m/s (270 patterns; contains the 100-300 m higher-speed windows between slower sections) x head/tail-end sets x grade in {{flat, +1.5 %, -1.5 %, vee, -1.5 % easing to -0.9 %, -0.3/-1.5/-0.9 %/flat, summit +2 %/-2 % 900 m before the end, crest level/-2 %}} x trains {{10 loaded cars + conv/BEL, 60 mixed cars + shipped 5-unit consist, 60 loaded cars + ONE locomotive (downgrades only: friction brakes carry the braking)}} x departure time in {{0, 137.5 s}} on (a) one 3 km link, whole path (for two of the trains also with the first / the middle / the first two / all three zones posted with a NEGATIVE, sign-flagged speed of the same magnitude); and on a 3 x 1 km chain{}: (b) link-by-link extension when the front is within {{8047 m (5 mi), 1000 m, 25 m}} of the end of authority, (c) the real walk_timed_path with every single entry delayed by {{0, 60, 600}} s, (d) make_est_times (chain extended by a 9 km link, because it only moves the train while > 5 mi of path lie ahead). One real SpeedLimitTrainSim run per element, stepped with the real step(); oracle {} on every step (every saved row for walk_timed_path). distinct_nontrivial = distinct (outcome, window class, grade, head/tail, links, mode) signatures.",
        CUTS,
        SPEEDS,
        if tier.is_thorough() { " (all patterns)" } else { " (every 3rd pattern)" },
        which
    )
}

pub fn cases(tier: Tier) -> Vec<SlCase> {
    let mut v = vec![];
    let pats = zone_patterns(tier);
    for (pi, z) in pats.iter().enumerate() {
        for head in [true, false] {
            for grade in 0..8u8 {
                for (ti, train) in trains().into_iter().enumerate() {
                    // the heavy train with a single locomotive is there for the downgrades (friction brakes carry most
                    // of the braking); on the flat and the upgrades it only repeats what the other trains show
                    if ti == 2 && !(grade == 2 || grade >= 4) {
                        continue;
                    }
                    let t0 = if (pi + ti) % 2 == 0 { 0.0 } else { 137.5 };
                    v.push(SlCase { sl: true, link_len: vec![TOTAL], zones: z.clone(), grade, head_end: head, train, t0, mode: Mode::Whole, brake_ramp: None, neg: 0, gate: 0 });
                    if ti != 1 {
                        // sign-flagged (negative) posted speeds: first zone, middle zone, the first two, all three
                        for neg in [0b001u8, 0b010, 0b011, 0b111] {
                            v.push(SlCase { sl: true, link_len: vec![TOTAL], zones: z.clone(), grade, head_end: head, train, t0, mode: Mode::Whole, brake_ramp: None, neg, gate: 0 });
                        }
                    }
                    if ti == 0 && pi % 9 == 0 && (grade == 0 || grade == 2) {
                        // speed sets gated by a train-parameter condition (thresholds placed relative to this train)
                        for gate in 1..=6u8 {
                            v.push(SlCase { sl: true, link_len: vec![TOTAL], zones: z.clone(), grade, head_end: head, train, t0, mode: Mode::Whole, brake_ramp: None, neg: 0, gate });
                            v.push(SlCase { sl: true, link_len: vec![1000.0, 1000.0, 1000.0], zones: z.clone(), grade, head_end: head, train, t0, mode: Mode::LinkByLink { threshold: 1000.0 }, brake_ramp: None, neg: 0, gate });
                        }
                    }
                    if ti == 2 {
                        // the same heavy train with a 10 s friction-brake ramp (TrainSimBuilder hard-codes 0 s; the field
                        // is public).  Longer ramps are NOT generated: from about 15 s the unchanged code already runs
                        // into its overspeed assert when the limit is reached on a downgrade (DESIGN, C03)
                        v.push(SlCase { sl: true, link_len: vec![TOTAL], zones: z.clone(), grade, head_end: head, train, t0, mode: Mode::Whole, brake_ramp: Some(10.0), neg: 0, gate: 0 });
                    }
                    // multi-link schedules
                    if tier.is_thorough() || pi % 3 == 0 {
                        let chain = vec![1000.0, 1000.0, 1000.0];
                        for th in [8047.0, 1000.0, 25.0] {
                            v.push(SlCase { sl: true, link_len: chain.clone(), zones: z.clone(), grade, head_end: head, train, t0, mode: Mode::LinkByLink { threshold: th }, brake_ramp: None, neg: 0, gate: 0 });
                        }
                        if ti == 0 {
                            v.push(SlCase { sl: true, link_len: chain.clone(), zones: z.clone(), grade, head_end: head, train, t0, mode: Mode::Timed { delayed: 0, delay: 0.0 }, brake_ramp: None, neg: 0, gate: 0 });
                            for delayed in [1usize, 2] {
                                for delay in [60.0, 600.0] {
                                    v.push(SlCase { sl: true, link_len: chain.clone(), zones: z.clone(), grade, head_end: head, train, t0, mode: Mode::Timed { delayed, delay }, brake_ramp: None, neg: 0, gate: 0 });
                                }
                            }
                            if grade % 2 == 0 {
                                // make_est_times only moves the train while more than 5 mi of path lie ahead: add a 9 km link
                                let mut zl = z.clone();
                                zl.push((TOTAL, TOTAL + 9000.0, 15.0));
                                v.push(SlCase { sl: true, link_len: vec![1000.0, 1000.0, 1000.0, 9000.0], zones: zl, grade, head_end: head, train, t0, mode: Mode::EstTimes, brake_ramp: None, neg: 0, gate: 0 });
                            }
                        }
                    }
                }
            }
        }
    }
    v
}

pub fn explore(ctx: &mut Ctx, which: &'static str) {
    for c in cases(ctx.tier) {
        // C07/C11/C12 ride on the whole-path and link-by-link runs (and timed rows for C07/C12)
        if which != "C03" {
            // the sign-flagged speed variants concern the speed controller only
            if c.neg != 0 || c.gate != 0 {
                continue;
            }
            match (&c.mode, which) {
                (Mode::EstTimes, _) => continue,
                (Mode::Timed { .. }, "C11") => continue,
                _ => {}
            }
        }
        if !ctx.claim() {
            continue;
        }
        ctx.describe(&serde_json::to_value(&c).unwrap());
        let run = execute(&c, which);
        ctx.evaluation();
        ctx.stats.states += run.steps;
        ctx.stats.transitions += run.steps;
        ctx.checks(run.checks);
        ctx.sig(&run.sig);
        if run.validated {
            ctx.validated();
        }
        if let Some(m) = run.machinery {
            ctx.machinery_error(m);
        }
        ctx.count(&format!("outcome:{}", run.outcome.chars().take(60).collect::<String>()));
        ctx.sample(|| serde_json::to_value(&c).unwrap());
        let size = c.link_len.len() as u64 * 10 + c.zones.len() as u64;
        for (k, w) in run.fails {
            if ctx.wants_violation(&k, size) {
                ctx.violation(&k, w, serde_json::to_value(&c).unwrap(), size);
            } else {
                ctx.count_violation_only(&k);
            }
        }
        if ctx.out_of_time() {
            break;
        }
    }
}

pub fn replay(which: &str, case: &Value) -> ReplayOutcome {
    let c: SlCase = match serde_json::from_value(case.clone()) {
        Ok(c) => c,
        Err(e) => return ReplayOutcome { violations: vec![("bad-replay-file".into(), e.to_string())], observation: String::new() },
    };
    let run = execute(&c, which);
    ReplayOutcome { violations: run.fails, observation: format!("{} steps={} fric={} {}", run.outcome, run.steps, run.fric, run.err_full.chars().take(600).collect::<String>()) }
}
