//! SpeedLimitLab (placeholder until the speed-limited exploration lands)
use crate::engine::{Ctx, ReplayOutcome, Tier};
use serde_json::Value;
pub fn rule(_which: &str, _tier: Tier) -> String {
    "not yet".into()
}
pub fn explore(_ctx: &mut Ctx, _which: &'static str) {}
pub fn replay(_which: &str, _case: &Value) -> ReplayOutcome {
    ReplayOutcome { violations: vec![], observation: String::new() }
}
