//! C15: estimated-time network is well-formed, route-faithful and time-consistent.
//! E-SHAPE: make_est_times on every (topology, O/D, departure, train length); then every node and every
//! start-to-end walk over idx_next / idx_next_alt of the returned graph.

use crate::domain::disp::*;
use crate::engine::{guarded, Ctx, Prop, ReplayOutcome, Tier};
use altrios_core::meet_pass::disp_structs::EstType;
use altrios_core::meet_pass::est_times::{make_est_times, EstTimeNet};
use serde::{Deserialize, Serialize};
use serde_json::Value;

#[derive(Debug, Clone, Serialize, Deserialize, PartialEq)]
pub struct Case {
    pub topo: String,
    pub train: TrainDesc,
}

pub type Fails = Vec<(String, String)>;

pub struct Judged {
    pub fails: Fails,
    pub nodes: u64,
    pub edges: u64,
    pub walks: u64,
    pub checks: u64,
    pub sig: String,
}

pub fn judge(t: &Topo, d: &TrainDesc, net: &EstTimeNet) -> Judged {
    let e = &net.val;
    let n = e.len();
    let mut j = Judged { fails: vec![], nodes: n as u64, edges: 0, walks: 0, checks: 0, sig: String::new() };
    let origs0 = origin_dest_links(t, d.od).0;
    let multi = origs0.len() > 1;
    // input classes of the known scheduling defect: several origin segments, or a turnout (alternate next link)
    // directly behind the origin link, i.e. the alternates branch off before the first real event
    let alt_at_origin = origs0.iter().any(|l| t.net.0[*l].idx_next_alt.idx() != 0);
    let class = if multi {
        "multi-origin"
    } else if alt_at_origin {
        "turnout-directly-behind-origin"
    } else {
        "single-origin"
    };
    let mut push = |j: &mut Judged, key: &str, what: String| {
        if !j.fails.iter().any(|f| f.0.starts_with(key)) {
            j.fails.push((format!("{key}:{class}"), what));
        }
    };
    if n < 4 {
        push(&mut j, "too-few-nodes@make_est_times", format!("{n} nodes"));
        return j;
    }
    let last = n - 1;
    // ---- reciprocity at every node
    for (i, x) in e.iter().enumerate() {
        for (nx, name) in [(x.idx_next as usize, "next"), (x.idx_next_alt as usize, "next_alt")] {
            if nx != 0 {
                j.edges += 1;
                j.checks += 1;
                if nx >= n {
                    push(&mut j, "link-outside-graph@make_est_times", format!("node {i} idx_{name} = {nx}"));
                    continue;
                }
                if e[nx].idx_prev as usize != i && e[nx].idx_prev_alt as usize != i {
                    push(&mut j, "forward-link-not-reciprocated@make_est_times", format!("node {i} idx_{name} = {nx} but node {nx} has prev {} / prev_alt {}", e[nx].idx_prev, e[nx].idx_prev_alt));
                }
            }
        }
        for (pv, name) in [(x.idx_prev as usize, "prev"), (x.idx_prev_alt as usize, "prev_alt")] {
            if pv != 0 || (i == 1 && name == "prev") {
                j.checks += 1;
                if pv >= n {
                    push(&mut j, "link-outside-graph@make_est_times", format!("node {i} idx_{name} = {pv}"));
                    continue;
                }
                if e[pv].idx_next as usize != i && e[pv].idx_next_alt as usize != i {
                    push(&mut j, "backward-link-not-reciprocated@make_est_times", format!("node {i} idx_{name} = {pv} but node {pv} has next {} / next_alt {}", e[pv].idx_next, e[pv].idx_next_alt));
                }
            }
        }
        j.checks += 1;
        if i >= 2 && x.idx_prev == 0 {
            push(&mut j, "node-without-predecessor@make_est_times", format!("node {i}"));
        }
        if i != last && x.idx_next == 0 {
            push(&mut j, "node-without-successor@make_est_times", format!("node {i}"));
        }
        // ---- finite, non-negative
        j.checks += 3;
        let ts = x.time_sched.value;
        if !(ts.is_finite() && ts >= 0.0) {
            push(&mut j, "scheduled-time-not-finite-nonnegative@update_times", format!("node {i} time_sched {ts}"));
        }
        if !(x.time_to_next.value.is_finite() && x.time_to_next.value >= -1e-9) {
            push(&mut j, "duration-not-finite-nonnegative@make_est_times", format!("node {i} time_to_next {}", x.time_to_next.value));
        }
        if !(x.dist_to_next.value.is_finite() && x.dist_to_next.value >= -1e-9) {
            push(&mut j, "distance-not-finite-nonnegative@make_est_times", format!("node {i} dist_to_next {}", x.dist_to_next.value));
        }
        // a real event is never scheduled before the train departs
        j.checks += 1;
        if ts.is_finite() && ts < d.dep as f64 - 1e-6 {
            push(&mut j, "scheduled-before-departure@update_times", format!("node {i} ({:?} link {}) scheduled at {ts} s, departure {} s", x.link_event.est_type, x.link_event.link_idx.idx(), d.dep));
        }
    }
    // ---- time consistency along primary links and against every predecessor
    for (i, x) in e.iter().enumerate().skip(1) {
        let p = x.idx_prev as usize;
        if p < n && (i >= 2 || p == 0) {
            let pe = &e[p];
            if pe.idx_next as usize == i {
                j.checks += 1;
                let want = pe.time_sched.value + pe.time_to_next.value;
                if (x.time_sched.value - want).abs() > 1e-6 {
                    push(&mut j, "time-not-predecessor-plus-duration@update_times", format!("node {i} scheduled {} but primary predecessor {p} gives {} + {}", x.time_sched.value, pe.time_sched.value, pe.time_to_next.value));
                }
            }
        }
        for pv in [x.idx_prev as usize, x.idx_prev_alt as usize] {
            if pv != 0 && pv < n {
                j.checks += 1;
                let allow = e[pv].time_sched.value + e[pv].time_to_next.value;
                if x.time_sched.value > allow + 1e-6 {
                    push(&mut j, "scheduled-later-than-a-predecessor-allows@update_times", format!("node {i} scheduled {} but predecessor {pv} allows {}", x.time_sched.value, allow));
                }
            }
        }
    }
    // ---- running time: `get_running_time_hours` exists only in the pyo3 build (it is declared inside the
    // `altrios_api` python block); its definition is last - first, so the harness checks that this difference is a
    // finite, non-negative number and equals the time accumulated along the primary chain
    j.checks += 1;
    let want = e[last].time_sched.value - e[0].time_sched.value;
    if !(want.is_finite() && want >= 0.0) {
        push(&mut j, "running-time-not-finite-nonnegative@EstTimeNet", format!("last - first = {want}"));
    }
    // ---- every start-to-end walk
    let (orig, dest) = origin_dest_links(t, d.od);
    let links = &t.net.0;
    let mut stack: Vec<(usize, Vec<usize>)> = vec![(0, vec![0])];
    let mut n_walks = 0u64;
    let mut routes: std::collections::BTreeSet<Vec<usize>> = Default::default();
    while let Some((cur, path)) = stack.pop() {
        if path.len() > 4 * n + 8 {
            push(&mut j, "walk-does-not-terminate@make_est_times", format!("cycle: {:?}", &path[..12.min(path.len())]));
            break;
        }
        if n_walks > 200_000 {
            push(&mut j, "too-many-walks@harness-bound", "more than 200000 walks".into());
            break;
        }
        let x = &e[cur];
        if x.idx_next == 0 {
            n_walks += 1;
            j.checks += 1;
            if cur != last {
                push(&mut j, "walk-ends-before-end-node@make_est_times", format!("walk ends at node {cur}, end node is {last}"));
                continue;
            }
            // events of this walk
            let mut arr: Vec<usize> = vec![];
            let mut clr: Vec<usize> = vec![];
            let mut order_ok = true;
            for &k in &path {
                match e[k].link_event.est_type {
                    EstType::Arrive => arr.push(e[k].link_event.link_idx.idx()),
                    EstType::Clear => {
                        let l = e[k].link_event.link_idx.idx();
                        if !arr.contains(&l) {
                            order_ok = false;
                        }
                        clr.push(l);
                    }
                    EstType::Fake => {}
                }
            }
            j.checks += 5;
            if arr.is_empty() || !orig.contains(&arr[0]) {
                push(&mut j, "walk-does-not-start-on-an-origin@make_est_times", format!("arrive sequence {:?}, origins {:?}", arr, orig));
            }
            if arr.is_empty() || !dest.contains(arr.last().unwrap()) {
                push(&mut j, "walk-does-not-end-on-a-destination@make_est_times", format!("arrive sequence {:?}, destinations {:?}", arr, dest));
            }
            if !arr.windows(2).all(|w| links[w[1]].idx_prev.idx() == w[0] || links[w[1]].idx_prev_alt.idx() == w[0]) {
                push(&mut j, "walk-not-a-contiguous-route@make_est_times", format!("arrive sequence {:?}", arr));
            }
            if !order_ok {
                push(&mut j, "segment-cleared-before-entered@make_est_times", format!("arrive {:?} clear {:?}", arr, clr));
            }
            // clears happen in route order and every entered link is eventually cleared -- as far as the geometry allows:
            // the tail enters link k when the front is one train length past its start, which lies beyond the end of the
            // path for links in the last train length of the route (a terminal link shorter than the train)
            let train_len = if d.long { 1080.0 } else { 360.0 };
            let total: f64 = arr.iter().map(|l| links[*l].length.value).sum();
            let mut base = 0.0;
            let mut expect_clr: Vec<usize> = vec![];
            let mut undecided: Vec<usize> = vec![];
            for l in &arr {
                // the simulated train comes to rest some way short of the end of its path (C03 only promises "inside the
                // path"): tail-entry points within the last 250 m may or may not be reached
                if base + train_len < total - 250.0 {
                    expect_clr.push(*l);
                } else if base + train_len <= total + 1.0 {
                    undecided.push(*l);
                }
                base += links[*l].length.value;
            }
            let with_undecided: Vec<usize> = expect_clr.iter().chain(undecided.iter()).cloned().collect();
            let prefix_ok = clr.len() >= expect_clr.len() && clr.len() <= with_undecided.len() && clr[..] == with_undecided[..clr.len()];
            if !prefix_ok {
                push(&mut j, "clear-events-do-not-follow-the-route@make_est_times", format!("arrive {:?} clear {:?}", arr, clr));
            }
            routes.insert(arr);
            continue;
        }
        for nx in [x.idx_next_alt as usize, x.idx_next as usize] {
            if nx != 0 && nx < n {
                let mut p2 = path.clone();
                p2.push(nx);
                stack.push((nx, p2));
            }
        }
    }
    j.walks = n_walks;
    j.sig = format!("{}:{}:routes={}:walks={}", t.name, class, routes.len(), n_walks.min(9));
    j
}

pub fn build(t: &Topo, d: &TrainDesc) -> Result<Result<EstTimeNet, String>, String> {
    let sim = match make_sim(t, d, 1) {
        Ok(s) => s,
        Err(e) => return Ok(Err(e)),
    };
    match guarded(|| make_est_times(sim, &t.net.0)) {
        Ok(Ok((n, _))) => Ok(Ok(n)),
        Ok(Err(e)) => Ok(Err(format!("{e:#}"))),
        Err(p) => Err(p),
    }
}

pub struct C15;

impl Prop for C15 {
    fn id(&self) -> &'static str {
        "C15"
    }
    fn rule(&self, tier: Tier) -> String {
        format!("E-SHAPE: real make_est_times on every (topology in the dispatch family{} with 0..2 alternative routes and 1-2 origin/destination segments, PLUS the cut-off family: a fast main track of length 1..8 km on a 100 m grid against a shorter, slower cut-off ({} (length, speed) variants) between the same two switches, and the short-terminal family: a terminal link of 0.15..3 km (shorter than / comparable to the 360 m and 1080 m trains) at the end of a plain line and behind a siding, used as destination and as origin) x origin/destination pair (both directions) x train length in {{360 m, 1080 m}} x departure in {{0, 300}} s; then EVERY node and EVERY start-to-end walk over idx_next / idx_next_alt of the returned graph (states = nodes, transitions = edges, traces = walks, all enumerated). distinct_nontrivial = distinct (topology, single/multi-origin, number of distinct routes spelled by the walks, number of walks) signatures.", if tier.is_thorough() { ", middle links 0.5 / 3 / 20 km, departures {0,60,300,900,3600} s" } else { ", middle links 0.5 / 3 / 20 km" }, if tier.is_thorough() { 4 } else { 2 })
    }
    fn assumptions(&self) -> Vec<String> {
        vec![
            "construction failures (Err) are outside the property's premise and only counted; a panic during construction is reported".into(),
            "'finite and non-negative' is read with the departure time as the lower bound for scheduled times of a train that departs at t >= 0".into(),
        ]
    }
    fn explore(&self, ctx: &mut Ctx) {
        // the graphs are tiny: both tiers use every middle-link length; the thorough tier adds departure times
        let deps: Vec<u32> = if ctx.tier.is_thorough() { vec![0, 60, 300, 900, 3600] } else { vec![0, 300] };
        let mut topos = topologies(true);
        topos.extend(cutoff_topologies(ctx.tier.is_thorough()));
        topos.extend(short_terminal_topologies(ctx.tier.is_thorough()));
        for t in topos {
            for od in 0..t.ods.len() {
                for &dep in &deps {
                    for long in [false, true] {
                        if !ctx.claim() {
                            continue;
                        }
                        let d = TrainDesc { od, dep, long };
                        let c = Case { topo: t.name.clone(), train: d };
                        ctx.describe(&serde_json::to_value(&c).unwrap());
                        ctx.evaluation();
                        match build(&t, &d) {
                            Err(p) => ctx.violation("panic@make_est_times", p.chars().take(300).collect(), serde_json::to_value(&c).unwrap(), 1),
                            Ok(Err(e)) => {
                                ctx.count("construction-rejected");
                                ctx.sig(&format!("{}:rejected:{}", t.name, e.lines().next().unwrap_or("").chars().take(40).collect::<String>()));
                            }
                            Ok(Ok(net)) => {
                                let j = judge(&t, &d, &net);
                                ctx.stats.states += j.nodes;
                                ctx.stats.transitions += j.edges;
                                ctx.stats.traces_validated += j.walks;
                                ctx.checks(j.checks);
                                ctx.sig(&j.sig);
                                ctx.sample(|| serde_json::json!({"case": c, "nodes": j.nodes, "edges": j.edges, "walks": j.walks}));
                                for (k, w) in j.fails {
                                    ctx.violation(&k, w, serde_json::to_value(&c).unwrap(), 1);
                                }
                            }
                        }
                    }
                }
            }
        }
        ctx.finish();
    }
    fn replay(&self, case: &Value) -> ReplayOutcome {
        let c: Case = match serde_json::from_value(case.clone()) {
            Ok(c) => c,
            Err(e) => return ReplayOutcome { violations: vec![("bad-replay-file".into(), e.to_string())], observation: String::new() },
        };
        let mut topos = topologies(true);
        topos.extend(cutoff_topologies(true));
        topos.extend(short_terminal_topologies(true));
        topos.extend(short_terminal_topologies(false));
        let Some(t) = topos.iter().find(|t| t.name == c.topo) else {
            return ReplayOutcome { violations: vec![("bad-replay-file".into(), "unknown topology".into())], observation: String::new() };
        };
        match build(t, &c.train) {
            Err(p) => ReplayOutcome { violations: vec![("panic@make_est_times".into(), p)], observation: "panic".into() },
            Ok(Err(e)) => ReplayOutcome { violations: vec![], observation: format!("rejected: {e}") },
            Ok(Ok(net)) => {
                let j = judge(t, &c.train, &net);
                ReplayOutcome { violations: j.fails, observation: format!("nodes={} walks={} first={} last={}", j.nodes, j.walks, net.val[0].time_sched.value, net.val[net.val.len() - 1].time_sched.value) }
            }
        }
    }
}
