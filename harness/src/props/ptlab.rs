//! PowertrainLab: shared stepping driver + oracles for C01 / C08 / C09 (single locomotives) —
//! E-SEQ over state-relative demand letters, driven exactly like `LocomotiveSimulation::solve_step`.

use crate::domain::pt::*;
use crate::engine::{close, close_tol, guarded};
use altrios_core::consist::locomotive::loco_sim::{LocomotiveSimulation, PowerTrace};
use altrios_core::consist::locomotive::{Locomotive, PowertrainType};
use altrios_core::consist::LocoTrait;
use altrios_core::uc;
use serde::{Deserialize, Serialize};

/// demand letters relative to the limits just published (DESIGN §2 DEM)
/// "-0.5aux": braking lighter than the auxiliary load (battery still discharging at its terminals while traction is negative)
pub const DEMANDS: [&str; 14] = ["0.6M", "0", "1e-6M", "0.3M", "M-", "M", "M+tol", "1.2M", "-0.5R", "-R", "-(R+D)/2", "-D", "-1.01D", "-0.5aux"];
/// the last entry (20 s) is used by C01 only: it lets the small battery pack cross its SOC window in one step
pub const DTS: [f64; 4] = [1.0, 0.25, 4.0, 20.0];
/// engine command letters (C08 only): on / None / off
pub const ENGINE: [Option<bool>; 3] = [Some(true), None, Some(false)];

#[derive(Debug, Clone, Copy, PartialEq, Serialize, Deserialize)]
pub struct Letter {
    pub demand: usize,
    pub dt: usize,
    pub engine: usize,
}

pub fn demand_value(d: usize, m: f64, r: f64, drv: f64) -> f64 {
    demand_value_aux(d, m, r, drv, 0.0)
}
pub fn demand_value_aux(d: usize, m: f64, r: f64, drv: f64, aux: f64) -> f64 {
    match DEMANDS[d] {
        "0.6M" => 0.6 * m,
        "0" => 0.0,
        "1e-6M" => 1e-6 * m,
        "0.3M" => 0.3 * m,
        "M-" => m * (1.0 - 1e-9),
        "M" => m,
        "M+tol" => m * (1.0 + 2e-3),
        "1.2M" => 1.2 * m,
        "-0.5R" => -0.5 * r,
        "-R" => -r,
        "-(R+D)/2" => -(r + drv) / 2.0,
        "-D" => -drv,
        "-0.5aux" => -0.5 * aux,
        _ => -1.01 * drv,
    }
}

/// what the step looked like from outside
#[derive(Debug, Clone)]
pub struct StepInfo {
    pub dt: f64,
    pub demand: f64,
    pub engine_on: Option<bool>,
    /// limits published by set_cur_pwr_max_out for this step
    pub m: f64,
    pub r: f64,
    pub drv: f64,
    pub accepted: bool,
    pub err: String,
    pub panicked: bool,
}

/// one step driven exactly like `LocomotiveSimulation::solve_step` + `step`
/// (`set_pwr_aux` -> `set_cur_pwr_max_out` -> `solve_energy_consumption` -> pwr_out check -> save_state -> step).
/// `demand`: Ok(letter index) state-relative, or Err(absolute watts).
pub fn step_loco(loco: &mut Locomotive, demand: Result<usize, f64>, dt: f64, engine_on: Option<bool>) -> StepInfo {
    let mut info = StepInfo { dt, demand: 0.0, engine_on, m: 0.0, r: 0.0, drv: 0.0, accepted: false, err: String::new(), panicked: false };
    let res = guarded(|| -> Result<(), String> {
        loco.set_pwr_aux(engine_on);
        loco.set_cur_pwr_max_out(None, dt * uc::S).map_err(|e| format!("{e:#}"))?;
        info.m = loco.state.pwr_out_max.value;
        info.r = loco.state.pwr_regen_max.value;
        info.drv = loco.electric_drivetrain().map(|e| e.pwr_out_max.value).unwrap_or(0.0);
        info.demand = match demand {
            Ok(d) => demand_value_aux(d, info.m, info.r, info.drv, loco.state.pwr_aux.value),
            Err(w) => w,
        };
        loco.solve_energy_consumption(info.demand * uc::W, dt * uc::S, engine_on).map_err(|e| format!("{e:#}"))?;
        // LocomotiveSimulation::solve_step's own acceptance check
        if !altrios_core::utils::almost_eq(info.demand, loco.state.pwr_out.value, None) {
            return Err("pwr_out differs from requested power".into());
        }
        loco.save_state();
        loco.step();
        Ok(())
    });
    match res {
        Ok(Ok(())) => info.accepted = true,
        Ok(Err(e)) => info.err = e,
        Err(p) => {
            info.panicked = true;
            info.err = p;
        }
    }
    info
}

/// flat numeric view of a locomotive's component states (only what the oracles need)
#[derive(Debug, Clone, Default)]
pub struct Snap {
    pub is_conv: bool,
    /// hybrid: has engine + generator AND battery (is_conv is false)
    pub is_hyb: bool,
    // fc
    pub fc_rating: f64,
    pub fc_lag: f64,
    pub fc_init: f64,
    pub fc_idle_param: f64,
    pub fc_out_max: f64,
    pub fc_eta: f64,
    pub fc_brake: f64,
    pub fc_fuel: f64,
    pub fc_loss: f64,
    pub fc_idle: f64,
    pub fc_e_brake: f64,
    pub fc_e_fuel: f64,
    pub fc_e_loss: f64,
    pub fc_e_idle: f64,
    pub fc_engine_on: bool,
    // gen
    pub gen_rating: f64,
    pub gen_eta: f64,
    pub gen_mech_in: f64,
    pub gen_prop: f64,
    pub gen_aux: f64,
    pub gen_loss: f64,
    pub gen_e_mech_in: f64,
    pub gen_e_prop: f64,
    pub gen_e_aux: f64,
    pub gen_e_loss: f64,
    pub gen_out_max: f64,
    pub gen_prop_out_max: f64,
    // edrv
    pub ed_rating: f64,
    pub ed_eta: f64,
    pub ed_out_max: f64,
    pub ed_regen_max: f64,
    pub ed_req: f64,
    pub ed_elec_in: f64,
    pub ed_mech_out: f64,
    pub ed_dyn: f64,
    pub ed_elec_dyn: f64,
    pub ed_loss: f64,
    pub ed_e_elec_in: f64,
    pub ed_e_mech_out: f64,
    pub ed_e_dyn: f64,
    pub ed_e_elec_dyn: f64,
    pub ed_e_loss: f64,
    // res
    pub res_rating: f64,
    pub res_cap: f64,
    pub res_min_soc: f64,
    pub res_max_soc: f64,
    pub res_soc: f64,
    pub res_eta: f64,
    pub res_disch_max: f64,
    pub res_charge_max: f64,
    pub res_prop_out_max: f64,
    pub res_regen_out_max: f64,
    pub res_elec: f64,
    pub res_prop: f64,
    pub res_aux: f64,
    pub res_loss: f64,
    pub res_chem: f64,
    pub res_e_elec: f64,
    pub res_e_prop: f64,
    pub res_e_aux: f64,
    pub res_e_loss: f64,
    pub res_e_chem: f64,
    // loco
    pub l_out_max: f64,
    pub l_regen_max: f64,
    pub l_out: f64,
    pub l_aux: f64,
    pub l_e_out: f64,
    /// `LocoTrait::get_energy_loss()` of the locomotive (the loss total it reports)
    pub l_loss_reported: f64,
    pub l_e_aux: f64,
    pub l_i: usize,
}

pub fn snap(l: &Locomotive) -> Snap {
    let mut s = Snap::default();
    s.l_out_max = l.state.pwr_out_max.value;
    s.l_regen_max = l.state.pwr_regen_max.value;
    s.l_out = l.state.pwr_out.value;
    s.l_aux = l.state.pwr_aux.value;
    s.l_e_out = l.state.energy_out.value;
    s.l_loss_reported = l.get_energy_loss().value;
    s.l_e_aux = l.state.energy_aux.value;
    s.l_i = l.state.i;
    s.is_conv = matches!(&l.loco_type, PowertrainType::ConventionalLoco(_));
    s.is_hyb = matches!(&l.loco_type, PowertrainType::HybridLoco(_));
    if let Some(fc) = l.fuel_converter() {
        s.fc_rating = fc.pwr_out_max.value;
        s.fc_lag = fc.pwr_ramp_lag.value;
        s.fc_init = fc.pwr_out_max_init.value;
        s.fc_idle_param = fc.pwr_idle_fuel.value;
        s.fc_out_max = fc.state.pwr_out_max.value;
        s.fc_eta = fc.state.eta.value;
        s.fc_brake = fc.state.pwr_brake.value;
        s.fc_fuel = fc.state.pwr_fuel.value;
        s.fc_loss = fc.state.pwr_loss.value;
        s.fc_idle = fc.state.pwr_idle_fuel.value;
        s.fc_e_brake = fc.state.energy_brake.value;
        s.fc_e_fuel = fc.state.energy_fuel.value;
        s.fc_e_loss = fc.state.energy_loss.value;
        s.fc_e_idle = fc.state.energy_idle_fuel.value;
        s.fc_engine_on = fc.state.engine_on;
    }
    if let Some(g) = l.generator() {
        s.gen_rating = g.pwr_out_max.value;
        s.gen_eta = g.state.eta.value;
        s.gen_mech_in = g.state.pwr_mech_in.value;
        s.gen_prop = g.state.pwr_elec_prop_out.value;
        s.gen_aux = g.state.pwr_elec_aux.value;
        s.gen_loss = g.state.pwr_loss.value;
        s.gen_e_mech_in = g.state.energy_mech_in.value;
        s.gen_e_prop = g.state.energy_elec_prop_out.value;
        s.gen_e_aux = g.state.energy_elec_aux.value;
        s.gen_e_loss = g.state.energy_loss.value;
        s.gen_out_max = g.state.pwr_elec_out_max.value;
        s.gen_prop_out_max = g.state.pwr_elec_prop_out_max.value;
    }
    if let Some(r) = l.reversible_energy_storage() {
        s.res_rating = r.pwr_out_max.value;
        s.res_cap = r.energy_capacity.value;
        s.res_min_soc = r.min_soc.value;
        s.res_max_soc = r.max_soc.value;
        s.res_soc = r.state.soc.value;
        s.res_eta = r.state.eta.value;
        s.res_disch_max = r.state.pwr_disch_max.value;
        s.res_charge_max = r.state.pwr_charge_max.value;
        s.res_prop_out_max = r.state.pwr_prop_out_max.value;
        s.res_regen_out_max = r.state.pwr_regen_out_max.value;
        s.res_elec = r.state.pwr_out_electrical.value;
        s.res_prop = r.state.pwr_out_propulsion.value;
        s.res_aux = r.state.pwr_aux.value;
        s.res_loss = r.state.pwr_loss.value;
        s.res_chem = r.state.pwr_out_chemical.value;
        s.res_e_elec = r.state.energy_out_electrical.value;
        s.res_e_prop = r.state.energy_out_propulsion.value;
        s.res_e_aux = r.state.energy_aux.value;
        s.res_e_loss = r.state.energy_loss.value;
        s.res_e_chem = r.state.energy_out_chemical.value;
    }
    let edrv = match &l.loco_type {
        PowertrainType::ConventionalLoco(c) => Some(&c.edrv),
        PowertrainType::BatteryElectricLoco(b) => Some(&b.edrv),
        PowertrainType::HybridLoco(h) => Some(&h.edrv),
        _ => None,
    };
    if let Some(e) = edrv {
        s.ed_rating = e.pwr_out_max.value;
        s.ed_eta = e.state.eta.value;
        s.ed_out_max = e.state.pwr_mech_out_max.value;
        s.ed_regen_max = e.state.pwr_mech_regen_max.value;
        s.ed_req = e.state.pwr_out_req.value;
        s.ed_elec_in = e.state.pwr_elec_prop_in.value;
        s.ed_mech_out = e.state.pwr_mech_prop_out.value;
        s.ed_dyn = e.state.pwr_mech_dyn_brake.value;
        s.ed_elec_dyn = e.state.pwr_elec_dyn_brake.value;
        s.ed_loss = e.state.pwr_loss.value;
        s.ed_e_elec_in = e.state.energy_elec_prop_in.value;
        s.ed_e_mech_out = e.state.energy_mech_prop_out.value;
        s.ed_e_dyn = e.state.energy_mech_dyn_brake.value;
        s.ed_e_elec_dyn = e.state.energy_elec_dyn_brake.value;
        s.ed_e_loss = e.state.energy_loss.value;
    }
    s
}

pub type Fails = Vec<(String, String)>;

fn chk(f: &mut Fails, ok: bool, key: &str, what: impl FnOnce() -> String) {
    if !ok {
        f.push((key.to_string(), what()));
    }
}

/// natural power scale of a unit (for the absolute part of the tolerance band)
pub fn pscale(s: &Snap) -> f64 {
    s.fc_rating.max(s.res_rating).max(s.ed_rating).max(1.0)
}

/// C01: per-step balances and cumulative identities; `p` = snapshot before the step, `s` after
pub fn oracle_c01(p: &Snap, s: &Snap, info: &StepInfo, checks: &mut u64) -> Fails {
    let mut f = vec![];
    let sc = pscale(s);
    let dt = info.dt;
    let kind = if s.is_conv { "conv" } else { "bel" };
    let cnt = std::cell::Cell::new(0u64);
    let c = |f: &mut Fails, a: f64, b: f64, key: &str| {
        cnt.set(cnt.get() + 1);
        chk(f, close(a, b, sc), &format!("{key}:{kind}"), || format!("{key}: {a} vs {b} (dt={dt}, demand={})", info.demand));
    };
    // electric drivetrain
    c(&mut f, s.l_out, s.ed_mech_out - s.ed_dyn, "loco-out=mech_prop-dyn_brake@Locomotive::solve_energy_consumption");
    c(&mut f, (s.ed_elec_in - s.ed_mech_out).abs(), s.ed_loss, "edrv-loss=|elec_in-mech_out|@ElectricDrivetrain::set_pwr_in_req");
    cnt.set(cnt.get() + 1);
    let downhill = if s.ed_mech_out > 0.0 { s.ed_elec_in >= s.ed_mech_out * (1.0 - 1e-12) } else { s.ed_elec_in.abs() <= s.ed_mech_out.abs() * (1.0 + 1e-12) };
    chk(&mut f, downhill, &format!("edrv-energy-flows-uphill@ElectricDrivetrain::set_pwr_in_req:{kind}"), || format!("mech_out={} elec_in={}", s.ed_mech_out, s.ed_elec_in));
    if s.is_conv {
        c(&mut f, s.fc_fuel, s.fc_brake + s.fc_loss, "fc-fuel=brake+loss@FuelConverter::solve_energy_consumption");
        c(&mut f, s.fc_brake, s.gen_mech_in, "fc-shaft=gen-input@ConventionalLoco::solve_energy_consumption");
        c(&mut f, s.gen_mech_in, s.gen_prop + s.gen_aux + s.gen_loss, "gen-in=prop+aux+loss@Generator::set_pwr_in_req");
        c(&mut f, s.gen_prop, s.ed_elec_in, "gen-out=edrv-in@ConventionalLoco::solve_energy_consumption");
        // whole unit
        c(&mut f, s.fc_fuel, s.ed_mech_out + s.gen_aux + s.fc_loss + s.gen_loss + s.ed_loss, "unit-ledger-step@conv");
        // cumulative increments
        c(&mut f, s.fc_e_fuel - p.fc_e_fuel, s.fc_fuel * dt, "d-energy_fuel=pwr*dt@fc");
        c(&mut f, s.fc_e_brake - p.fc_e_brake, s.fc_brake * dt, "d-energy_brake=pwr*dt@fc");
        c(&mut f, s.fc_e_loss - p.fc_e_loss, s.fc_loss * dt, "d-energy_loss=pwr*dt@fc");
        c(&mut f, s.gen_e_mech_in - p.gen_e_mech_in, s.gen_mech_in * dt, "d-energy_mech_in=pwr*dt@gen");
        c(&mut f, s.gen_e_prop - p.gen_e_prop, s.gen_prop * dt, "d-energy_prop=pwr*dt@gen");
        c(&mut f, s.gen_e_aux - p.gen_e_aux, s.gen_aux * dt, "d-energy_aux=pwr*dt@gen");
        c(&mut f, s.gen_e_loss - p.gen_e_loss, s.gen_loss * dt, "d-energy_loss=pwr*dt@gen");
    } else {
        c(&mut f, s.res_elec, s.res_prop + s.res_aux, "res-elec=prop+aux@ReversibleEnergyStorage::solve_energy_consumption");
        c(&mut f, s.res_prop, s.ed_elec_in, "res-prop=edrv-in@BatteryElectricLoco::solve_energy_consumption");
        c(&mut f, s.res_chem, s.res_elec + s.res_loss, "res-chem=elec+loss@ReversibleEnergyStorage::solve_energy_consumption");
        c(&mut f, s.res_loss, (s.res_chem - s.res_elec).abs(), "res-loss=|chem-elec|@ReversibleEnergyStorage::solve_energy_consumption");
        cnt.set(cnt.get() + 1);
        let want = p.res_soc - s.res_chem * dt / s.res_cap;
        chk(&mut f, close_tol(s.res_soc, want, 1e-12, 1e-12), &format!("soc-moves-by-chem/capacity@ReversibleEnergyStorage:{kind}"), || format!("soc {} -> {} but chem*dt/cap gives {}", p.res_soc, s.res_soc, want));
        c(&mut f, s.res_chem, s.ed_mech_out + s.res_aux + s.res_loss + s.ed_loss, "unit-ledger-step@bel");
        c(&mut f, s.res_e_elec - p.res_e_elec, s.res_elec * dt, "d-energy_elec=pwr*dt@res");
        c(&mut f, s.res_e_prop - p.res_e_prop, s.res_prop * dt, "d-energy_prop=pwr*dt@res");
        c(&mut f, s.res_e_aux - p.res_e_aux, s.res_aux * dt, "d-energy_aux=pwr*dt@res");
        c(&mut f, s.res_e_loss - p.res_e_loss, s.res_loss * dt, "d-energy_loss=pwr*dt@res");
        c(&mut f, s.res_e_chem - p.res_e_chem, s.res_chem * dt, "d-energy_chem=pwr*dt@res");
    }
    c(&mut f, s.ed_e_elec_in - p.ed_e_elec_in, s.ed_elec_in * dt, "d-energy_elec_in=pwr*dt@edrv");
    c(&mut f, s.ed_e_mech_out - p.ed_e_mech_out, s.ed_mech_out * dt, "d-energy_mech_out=pwr*dt@edrv");
    c(&mut f, s.ed_e_dyn - p.ed_e_dyn, s.ed_dyn * dt, "d-energy_dyn_brake=pwr*dt@edrv");
    c(&mut f, s.ed_e_loss - p.ed_e_loss, s.ed_loss * dt, "d-energy_loss=pwr*dt@edrv");
    c(&mut f, s.l_e_out - p.l_e_out, s.l_out * dt, "d-energy_out=pwr*dt@loco");
    // cumulative whole-unit ledger on the energies themselves
    cnt.set(cnt.get() + 1);
    let (src, sinks, tot) = if s.is_conv {
        let sinks = s.ed_e_mech_out + s.gen_e_aux + s.fc_e_loss + s.gen_e_loss + s.ed_e_loss;
        (s.fc_e_fuel, sinks, s.fc_e_fuel.abs() + s.ed_e_mech_out.abs())
    } else {
        let sinks = s.ed_e_mech_out + s.res_e_aux + s.res_e_loss + s.ed_e_loss;
        (s.res_e_chem, sinks, s.res_e_chem.abs() + s.ed_e_mech_out.abs() + s.res_e_loss + s.ed_e_loss)
    };
    chk(&mut f, close(src, sinks, tot.max(sc)), &format!("unit-ledger-cumulative:{kind}"), || format!("energy drawn {src} J vs wheel+aux+losses {sinks} J"));
    // the loss total the locomotive reports = sum of the component losses
    if !s.is_hyb {
        cnt.set(cnt.get() + 1);
        let want = if s.is_conv { s.fc_e_loss + s.gen_e_loss + s.ed_e_loss } else { s.res_e_loss + s.ed_e_loss };
        chk(&mut f, close(s.l_loss_reported, want, want.abs().max(sc)), &format!("reported-loss-total=sum-of-component-losses@Locomotive::get_energy_loss:{kind}"), || format!("get_energy_loss() {} J vs component losses {want} J", s.l_loss_reported));
    }
    // wheel energy = mech_prop_out - dyn brake, cumulatively
    cnt.set(cnt.get() + 1);
    chk(&mut f, close(s.l_e_out, s.ed_e_mech_out - s.ed_e_dyn, (s.ed_e_mech_out.abs() + s.ed_e_dyn).max(sc)), &format!("wheel-energy=mech_out-dyn_brake-cumulative:{kind}"), || format!("{} vs {}", s.l_e_out, s.ed_e_mech_out - s.ed_e_dyn));
    *checks += cnt.get();
    f
}

/// C08: second law per component; engine off burns nothing
pub fn oracle_c08(p: &Snap, s: &Snap, info: &StepInfo, checks: &mut u64) -> Fails {
    let mut f = vec![];
    let sc = pscale(s);
    let band = 1e-9 * sc;
    let kind = if s.is_hyb {
        "hyb"
    } else if s.is_conv {
        "conv"
    } else {
        "bel"
    };
    let mut t = |f: &mut Fails, ok: bool, key: &str, what: String| {
        *checks += 1;
        if !ok {
            f.push((format!("{key}:{kind}"), format!("{what} (dt={}, demand={}, engine={:?})", info.dt, info.demand, info.engine_on)));
        }
    };
    let eta_ok = |e: f64| e > 0.0 && e <= 1.0 + 1e-12;
    t(&mut f, s.ed_loss >= -band, "negative-loss@edrv", format!("pwr_loss={}", s.ed_loss));
    t(&mut f, eta_ok(s.ed_eta), "eta-outside-(0,1]@edrv", format!("eta={}", s.ed_eta));
    // converter: |out| <= |in| in the direction of flow
    if s.ed_mech_out >= 0.0 {
        t(&mut f, s.ed_mech_out <= s.ed_elec_in + band, "out-exceeds-in@edrv:traction", format!("mech_out={} elec_in={}", s.ed_mech_out, s.ed_elec_in));
    } else {
        t(&mut f, s.ed_elec_in.abs() <= s.ed_mech_out.abs() + band, "out-exceeds-in@edrv:regen", format!("mech_out={} elec_in={}", s.ed_mech_out, s.ed_elec_in));
    }
    t(&mut f, s.ed_elec_dyn <= s.ed_dyn + band, "out-exceeds-in@edrv:dyn-brake", format!("elec_dyn={} mech_dyn={}", s.ed_elec_dyn, s.ed_dyn));
    t(&mut f, s.ed_dyn >= -band, "negative-dyn-brake@edrv", format!("{}", s.ed_dyn));
    t(&mut f, info.demand < 0.0 || s.ed_dyn.abs() <= band, "dyn-brake-without-braking-demand@edrv", format!("pwr_mech_dyn_brake={} at demand {}", s.ed_dyn, info.demand));
    t(&mut f, s.ed_e_loss >= p.ed_e_loss - band, "cumulative-loss-decreased@edrv", format!("{} -> {}", p.ed_e_loss, s.ed_e_loss));
    t(&mut f, s.ed_e_dyn >= p.ed_e_dyn - band, "cumulative-dyn-brake-decreased@edrv", format!("{} -> {}", p.ed_e_dyn, s.ed_e_dyn));
    if s.is_conv || s.is_hyb {
        t(&mut f, s.fc_loss >= -band, "negative-loss@fc", format!("pwr_loss={}", s.fc_loss));
        t(&mut f, s.gen_loss >= -band, "negative-loss@gen", format!("pwr_loss={}", s.gen_loss));
        t(&mut f, eta_ok(s.fc_eta), "eta-outside-(0,1]@fc", format!("eta={}", s.fc_eta));
        t(&mut f, eta_ok(s.gen_eta), "eta-outside-(0,1]@gen", format!("eta={}", s.gen_eta));
        t(&mut f, s.fc_brake <= s.fc_fuel + band, "out-exceeds-in@fc", format!("brake={} fuel={}", s.fc_brake, s.fc_fuel));
        t(&mut f, s.gen_prop + s.gen_aux <= s.gen_mech_in + band, "out-exceeds-in@gen", format!("elec={} mech_in={}", s.gen_prop + s.gen_aux, s.gen_mech_in));
        t(&mut f, s.fc_e_fuel >= p.fc_e_fuel - band, "cumulative-fuel-decreased@fc", format!("{} -> {}", p.fc_e_fuel, s.fc_e_fuel));
        t(&mut f, s.fc_e_loss >= p.fc_e_loss - band, "cumulative-loss-decreased@fc", format!("{} -> {}", p.fc_e_loss, s.fc_e_loss));
        t(&mut f, s.gen_e_loss >= p.gen_e_loss - band, "cumulative-loss-decreased@gen", format!("{} -> {}", p.gen_e_loss, s.gen_e_loss));
        if info.engine_on == Some(false) {
            t(&mut f, s.fc_fuel == 0.0, "engine-off-burns-fuel@FuelConverter::solve_energy_consumption", format!("engine commanded off, step accepted, pwr_fuel={} W", s.fc_fuel));
            t(&mut f, s.fc_e_fuel == p.fc_e_fuel, "engine-off-fuel-energy-changed@FuelConverter::solve_energy_consumption", format!("energy_fuel {} -> {}", p.fc_e_fuel, s.fc_e_fuel));
            t(&mut f, s.l_aux == 0.0 && s.gen_aux == 0.0, "engine-off-aux-power@Locomotive::set_pwr_aux", format!("loco pwr_aux={} gen pwr_elec_aux={}", s.l_aux, s.gen_aux));
            t(&mut f, !s.fc_engine_on, "engine-off-not-recorded@fc", format!("state.engine_on={}", s.fc_engine_on));
        }
    }
    if !s.is_conv && !s.is_hyb && info.engine_on == Some(false) {
        // "a locomotive whose engine is commanded off consumes no ... auxiliary power in that step": the command zeroes
        // the auxiliary load of every locomotive type, also of one that has no engine to switch off
        t(&mut f, s.l_aux == 0.0 && s.res_aux == 0.0, "engine-off-aux-power@Locomotive::set_pwr_aux", format!("loco pwr_aux={} battery pwr_aux={}", s.l_aux, s.res_aux));
    }
    if !s.is_conv {
        t(&mut f, s.res_loss >= -band, "negative-loss@res", format!("pwr_loss={}", s.res_loss));
        t(&mut f, eta_ok(s.res_eta), "eta-outside-(0,1]@res", format!("eta={}", s.res_eta));
        if s.res_elec >= 0.0 {
            t(&mut f, s.res_elec <= s.res_chem + band, "out-exceeds-in@res:discharge", format!("elec={} chem={}", s.res_elec, s.res_chem));
        } else {
            t(&mut f, s.res_chem.abs() <= s.res_elec.abs() + band, "out-exceeds-in@res:charge", format!("elec={} chem={}", s.res_elec, s.res_chem));
        }
        t(&mut f, s.res_e_loss >= p.res_e_loss - band, "cumulative-loss-decreased@res", format!("{} -> {}", p.res_e_loss, s.res_e_loss));
    }
    f
}

/// C09: accepted steps respect ratings / transient limits / ramp rate / SOC window.
/// `pubd` = snapshot taken right after the limits were published (before solve), `p` = before the step.
pub fn oracle_c09(p: &Snap, s: &Snap, info: &StepInfo, checks: &mut u64) -> Fails {
    let mut f = vec![];
    let sc = pscale(s);
    let band = 1e-9 * sc;
    let kind = if s.is_conv { "conv" } else { "bel" };
    let tol = 1e-3; // the code's own TOL on engine / battery limits
    let dt = info.dt;
    let mut t = |f: &mut Fails, ok: bool, key: &str, what: String| {
        *checks += 1;
        if !ok {
            f.push((format!("{key}:{kind}"), format!("{what} (dt={dt}, demand={}, M={}, R={}, D={})", info.demand, info.m, info.r, info.drv)));
        }
    };
    let le = |a: f64, lim: f64, rel: f64| a <= lim * (1.0 + rel) + band || a <= lim + band;
    // drivetrain, both signs
    t(&mut f, le(s.ed_req.abs(), s.ed_rating, 1e-9), "drivetrain-beyond-rating@ElectricDrivetrain::set_pwr_in_req", format!("|pwr_out_req|={} rating={}", s.ed_req.abs(), s.ed_rating));
    t(&mut f, le(s.ed_mech_out.abs(), s.ed_rating, 1e-9), "drivetrain-prop-beyond-rating@ElectricDrivetrain::set_pwr_in_req", format!("|mech_prop_out|={} rating={}", s.ed_mech_out.abs(), s.ed_rating));
    // tractive power within published limit / dyn brake capability
    // "tractive power" = positive traction; braking is governed by the regen / dyn-brake limits below
    // the code's tolerance (TOL) is granted on the upstream component limit, so the same absolute slack is granted here
    let up = if s.is_conv { s.fc_out_max } else { s.res_disch_max };
    t(&mut f, s.l_out <= 0.0 || s.l_out <= info.m + tol * info.m.abs().max(up) + band, "traction-beyond-published-limit@Locomotive", format!("pwr_out={} published pwr_out_max={}", s.l_out, info.m));
    t(&mut f, le(-s.l_out, s.ed_rating, 1e-9), "braking-beyond-dyn-brake-capability@Locomotive", format!("-pwr_out={} drivetrain rating={}", -s.l_out, s.ed_rating));
    // published limits sane
    t(&mut f, info.m <= s.ed_rating + band, "published-traction-limit-above-rating@Locomotive", format!("pwr_out_max={} rating={}", info.m, s.ed_rating));
    t(&mut f, info.m >= -(s.l_aux.abs()) - band, "published-traction-limit-negative-beyond-aux@Locomotive", format!("pwr_out_max={} aux={}", info.m, s.l_aux));
    t(&mut f, info.r >= -band && info.r <= s.ed_rating + band, "published-regen-limit-out-of-range@Locomotive", format!("pwr_regen_max={} rating={}", info.r, s.ed_rating));
    if s.is_conv {
        t(&mut f, le(s.fc_brake, s.fc_rating, tol), "engine-beyond-rating@FuelConverter::solve_energy_consumption", format!("pwr_brake={} rating={}", s.fc_brake, s.fc_rating));
        t(&mut f, le(s.fc_brake, s.fc_out_max, tol), "engine-beyond-transient-limit@FuelConverter::solve_energy_consumption", format!("pwr_brake={} transient max={}", s.fc_brake, s.fc_out_max));
        // ramp: published transient limit <= min(rating, max(prev brake + rating/lag*dt, floor))
        let floor = p.fc_init.max(s.fc_rating / 10.0);
        // previous shaft power is taken from what the engine actually delivered (generator input), not from
        // the fuel converter's own record of it
        let prev_shaft = p.fc_brake.min(p.gen_mech_in);
        let allowed = (prev_shaft + s.fc_rating / s.fc_lag * dt).max(floor).min(s.fc_rating);
        t(&mut f, s.fc_out_max <= allowed * (1.0 + 1e-9) + band, "transient-limit-rises-faster-than-ramp@FuelConverter::set_cur_pwr_out_max", format!("published {} but prev shaft power {} + ramp allows {}", s.fc_out_max, prev_shaft, allowed));
        t(&mut f, s.fc_out_max <= s.fc_rating + band, "transient-limit-above-rating@FuelConverter::set_cur_pwr_out_max", format!("{} > {}", s.fc_out_max, s.fc_rating));
        t(&mut f, le(s.gen_prop + s.gen_aux, s.gen_rating, 1e-9), "generator-beyond-rating@Generator::set_pwr_in_req", format!("elec out={} rating={}", s.gen_prop + s.gen_aux, s.gen_rating));
        t(&mut f, s.gen_out_max <= s.gen_rating + band, "published-generator-limit-above-rating@Generator", format!("{} > {}", s.gen_out_max, s.gen_rating));
    } else {
        t(&mut f, le(s.res_elec.abs(), s.res_rating, tol), "battery-beyond-rating@ReversibleEnergyStorage::solve_energy_consumption", format!("|elec|={} rating={}", s.res_elec.abs(), s.res_rating));
        if s.res_elec >= 0.0 {
            t(&mut f, le(s.res_elec, s.res_disch_max, tol), "battery-beyond-published-discharge-limit@ReversibleEnergyStorage::solve_energy_consumption", format!("elec={} pwr_disch_max={}", s.res_elec, s.res_disch_max));
        } else {
            t(&mut f, le(-s.res_elec, s.res_charge_max, tol), "battery-beyond-published-charge-limit@ReversibleEnergyStorage::solve_energy_consumption", format!("-elec={} pwr_charge_max={}", -s.res_elec, s.res_charge_max));
        }
        t(&mut f, s.res_disch_max >= -band && s.res_disch_max <= s.res_rating + band, "published-discharge-limit-out-of-range@ReversibleEnergyStorage", format!("{}", s.res_disch_max));
        t(&mut f, s.res_charge_max >= -band && s.res_charge_max <= s.res_rating + band, "published-charge-limit-out-of-range@ReversibleEnergyStorage", format!("{}", s.res_charge_max));
        // SOC stays inside its configured window (code's derating makes this hold for admissible dt)
        let slack = 1e-3 * (s.res_max_soc - s.res_min_soc);
        t(&mut f, s.res_soc >= s.res_min_soc - slack && s.res_soc <= s.res_max_soc + slack, "soc-left-window@ReversibleEnergyStorage", format!("soc={} window=({}, {})", s.res_soc, s.res_min_soc, s.res_max_soc));
    }
    f
}

/// root + path of letters: the replayable form of one explored history
#[derive(Debug, Clone, Serialize, Deserialize)]
pub struct LocoCase {
    pub cfg: LocoCfg,
    pub path: Vec<Letter>,
    /// the public option `Locomotive.assert_limits = false` (limit checks inside the components are skipped; whatever
    /// power then flows must still be accounted for)
    #[serde(default)]
    pub no_assert: bool,
}

pub fn build_case_loco(cfg: &LocoCfg, no_assert: bool) -> Locomotive {
    let mut l = build_loco(cfg);
    if no_assert {
        l.assert_limits = false;
    }
    l
}

/// straight-line re-execution; returns per-step (info, snapshot-before, snapshot-after) for accepted steps,
/// stops at the first rejected step
pub fn run_case(case: &LocoCase) -> (Locomotive, Vec<(StepInfo, Snap, Snap)>) {
    let mut loco = build_case_loco(&case.cfg, case.no_assert);
    let mut out = vec![];
    for l in &case.path {
        let p = snap(&loco);
        let info = step_loco(&mut loco, Ok(l.demand), DTS[l.dt], ENGINE[l.engine]);
        let acc = info.accepted;
        let s = snap(&loco);
        out.push((info, p, s));
        if !acc {
            break;
        }
    }
    (loco, out)
}

/// binding to the real loop: the same history as a `PowerTrace` through `LocomotiveSimulation::walk`
/// on a fresh object; final locomotive must be bit-identical (PartialEq on every field)
pub fn validate_against_walk(case: &LocoCase, final_loco: &Locomotive, steps: &[(StepInfo, Snap, Snap)]) -> Result<(), String> {
    let mut time = vec![0.0];
    let mut pwr = vec![0.0];
    let mut eng = vec![Some(true)];
    let mut t = 0.0;
    for (info, _, _) in steps {
        t += info.dt;
        time.push(t);
        pwr.push(info.demand);
        eng.push(info.engine_on);
    }
    let pt = PowerTrace::new(time, pwr, eng);
    let mut sim = LocomotiveSimulation::new(build_case_loco(&case.cfg, case.no_assert), pt, None);
    match guarded(|| sim.walk()) {
        Ok(Ok(())) => {
            if &sim.loco_unit == final_loco {
                Ok(())
            } else {
                Err("LocomotiveSimulation::walk ends in a different state than the incrementally explored object".into())
            }
        }
        Ok(Err(e)) => Err(format!("walk failed where the explorer accepted every step: {e:#}")),
        Err(p) => Err(format!("walk panicked: {p}")),
    }
}
