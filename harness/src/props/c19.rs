//! C19: histories and step counters stay aligned through the whole object tree.
//! E-SHAPE x E-SEQ on the real walk()/step() of the four simulation kinds; the object tree is inspected generically
//! through its serialized form (every `history`, every `state.i`, every `save_interval` wherever it is nested).

use crate::domain::disp::*;
use crate::domain::net::*;
use crate::domain::pt::*;
use crate::domain::train::*;
use crate::engine::{guarded, Ctx, Prop, ReplayOutcome, Tier};
use altrios_core::consist::consist_sim::ConsistSimulation;
use altrios_core::consist::locomotive::loco_sim::{LocomotiveSimulation, PowerTrace};
use altrios_core::consist::locomotive::Locomotive;
use altrios_core::consist::Consist;
use altrios_core::train::{InitTrainState, LinkIdxTime, SpeedTrace};
use altrios_core::uc;
use serde::{Deserialize, Serialize};
use serde_json::Value;

#[derive(Debug, Clone, Serialize, Deserialize, PartialEq)]
pub enum Kind {
    /// 0 conv, 1 BEL, 2 hybrid, 3 hybrid with a flat battery, 4 conv with the engine commanded on / None / off along the trace
    Loco(u8),
    /// unit kinds 0 conv / 1 BEL
    Consist(Vec<u8>),
    SetSpeed(u8),
    /// speed-limited: (timed path?, break the timed path at entry k with a non-contiguous link)
    SpeedLimit { timed: bool, break_at: Option<usize> },
    /// E-SEQ: actions on a LocomotiveSimulation (false) / ConsistSimulation (true)
    Seq { consist: bool, actions: Vec<u8> },
    /// E-SEQ on a nested tree with one unit reconfigured on its own: subject 0 ConsistSimulation, 1 SetSpeedTrainSim;
    /// actions 0 step, 1 failing step, 2..5 top-level set_save_interval(None|1|2|3), 6 set ONE nested locomotive's interval
    /// to 5 behind the top level's back
    SeqNested { subject: u8, actions: Vec<u8> },
}

#[derive(Debug, Clone, Serialize, Deserialize, PartialEq)]
pub struct Case {
    pub kind: Kind,
    pub interval: Option<usize>,
    pub len: usize,
    pub fail_at: Option<usize>,
}

#[derive(Debug, Default, Clone)]
pub struct Tree {
    /// (path, i column)
    pub histories: Vec<(String, Vec<u64>)>,
    /// (path, state.i)
    pub counters: Vec<(String, u64)>,
    /// (path, save_interval)
    pub intervals: Vec<(String, Option<u64>)>,
}

fn walk_tree(v: &Value, path: &str, t: &mut Tree, parent_has_history: bool) {
    match v {
        Value::Object(m) => {
            if let Some(h) = m.get("history") {
                if let Some(hm) = h.as_object() {
                    if let Some(Value::Array(col)) = hm.get("i") {
                        t.histories.push((format!("{path}.history"), col.iter().map(|x| x.as_u64().unwrap_or(u64::MAX)).collect()));
                    }
                }
                // `state` is skipped by the serializer when it equals its default (i = 1)
                let i = m.get("state").and_then(|s| s.get("i")).and_then(|x| x.as_u64()).unwrap_or(1);
                t.counters.push((format!("{path}.state.i"), i));
            }
            if m.contains_key("save_interval") {
                t.intervals.push((format!("{path}.save_interval"), m.get("save_interval").and_then(|x| x.as_u64())));
            }
            let _ = parent_has_history;
            for (k, x) in m {
                if k == "history" || k == "power_trace" || k == "speed_trace" || k == "path_tpc" || k == "braking_points" {
                    continue;
                }
                walk_tree(x, &format!("{path}.{k}"), t, m.contains_key("history"));
            }
        }
        Value::Array(a) => {
            for (k, x) in a.iter().enumerate() {
                walk_tree(x, &format!("{path}[{k}]"), t, false);
            }
        }
        _ => {}
    }
}

pub fn tree_of<T: Serialize>(x: &T) -> Tree {
    let v = serde_json::to_value(x).unwrap_or(Value::Null);
    let mut t = Tree::default();
    walk_tree(&v, "", &mut t, false);
    t
}

pub type Fails = Vec<(String, String)>;

/// expected i column after `n_steps` executed steps with `interval`, with/without the initial save of walk()
pub fn expected_i(interval: Option<usize>, n_steps: usize, initial_save: bool) -> Vec<u64> {
    let mut v = vec![];
    if let Some(k) = interval {
        if initial_save && 1 % k == 0 {
            v.push(1);
        }
        for i in 1..=n_steps {
            if i % k == 0 {
                v.push(i as u64);
            }
        }
    }
    v
}

pub fn check_tree(t: &Tree, expect_i: &[u64], expect_counter: u64, interval: Option<usize>, kind: &str, checks: &mut u64) -> Fails {
    let mut f: Fails = vec![];
    *checks += 4;
    if t.histories.is_empty() {
        f.push((format!("no-history-found@harness:{kind}"), "the object tree exposes no history".into()));
        return f;
    }
    let first = &t.histories[0];
    for h in &t.histories {
        if h.1.len() != first.1.len() {
            f.push((format!("history-lengths-differ:{kind}"), format!("{} has {} entries but {} has {}", first.0, first.1.len(), h.0, h.1.len())));
            break;
        }
    }
    for h in &t.histories {
        if h.1 != first.1 {
            f.push((format!("history-rows-refer-to-different-steps:{kind}"), format!("{} i-column {:?} but {} i-column {:?}", first.0, first.1, h.0, h.1)));
            break;
        }
    }
    for c in &t.counters {
        if c.1 != t.counters[0].1 {
            f.push((format!("step-counters-differ:{kind}"), format!("{} = {} but {} = {}", t.counters[0].0, t.counters[0].1, c.0, c.1)));
            break;
        }
    }
    if t.counters[0].1 != expect_counter {
        f.push((format!("step-counter-not-steps-plus-one:{kind}"), format!("{} = {} expected {}", t.counters[0].0, t.counters[0].1, expect_counter)));
    }
    if first.1 != expect_i {
        let key = if interval.is_none() && !first.1.is_empty() { "history-not-empty-with-saving-disabled" } else { "history-entries-not-the-saved-steps" };
        f.push((format!("{key}:{kind}"), format!("{} i-column {:?} expected {:?} (interval {:?})", first.0, first.1, expect_i, interval)));
    }
    for iv in &t.intervals {
        if iv.1 != interval.map(|x| x as u64) {
            f.push((format!("save-interval-not-propagated:{kind}"), format!("{} = {:?} but the top level was set to {:?}", iv.0, iv.1, interval)));
            break;
        }
    }
    f
}

fn loco_of(k: u8) -> Locomotive {
    match k {
        0 => Locomotive::default(),
        1 => Locomotive::default_battery_electric_loco(),
        2 => Locomotive::default_hybrid_electric_loco(),
        4 => Locomotive::default(), // conventional unit driven with an engine on / None / off pattern
        _ => {
            // hybrid with a flat battery (at its minimum SOC): the feasible engine / battery split collapses to a point
            // and the hybrid's controller takes its no-search branch
            let mut h = Locomotive::default_hybrid_electric_loco();
            if let Some(r) = h.reversible_energy_storage_mut() {
                let m = r.min_soc;
                r.state.soc = m;
            }
            h
        }
    }
}

/// the same trace with the engine commanded off (and zero demand) at every 4th sample from sample 2 on
fn power_trace_engine_off(len: usize, fail_at: Option<usize>) -> PowerTrace {
    let time: Vec<f64> = (0..=len).map(|x| x as f64).collect();
    let off = |i: usize| i >= 2 && i % 4 == 2 && Some(i) != fail_at;
    // demands stay below the engine's transient-limit floor (rating / 10 = 335.6 kW): right after a commanded-off step the
    // published limit is back at that floor, and a step must fail only where the case says so
    let pwr: Vec<f64> = (0..=len).map(|i| if Some(i) == fail_at { 1.0e12 } else if off(i) { 0.0 } else { 1.0e5 + 5.0e3 * i as f64 }).collect();
    let eng: Vec<Option<bool>> = (0..=len).map(|i| if off(i) { Some(false) } else if i % 3 == 0 { None } else { Some(true) }).collect();
    PowerTrace::new(time, pwr, eng)
}

fn power_trace(len: usize, fail_at: Option<usize>) -> PowerTrace {
    let time: Vec<f64> = (0..=len).map(|x| x as f64).collect();
    let pwr: Vec<f64> = (0..=len).map(|i| if Some(i) == fail_at { 1.0e12 } else { 2.0e5 + 1.0e4 * i as f64 }).collect();
    PowerTrace::new(time, pwr, vec![Some(true); len + 1])
}

pub struct Outcome {
    pub fails: Fails,
    pub checks: u64,
    pub sig: String,
    pub steps: u64,
}

pub fn run_case(c: &Case) -> Outcome {
    let mut o = Outcome { fails: vec![], checks: 0, sig: String::new(), steps: 0 };
    let executed = |len: usize, fail_at: Option<usize>| fail_at.map(|f| f - 1).unwrap_or(len);
    match &c.kind {
        Kind::Loco(k) => {
            let trace = if *k == 4 { power_trace_engine_off(c.len, c.fail_at) } else { power_trace(c.len, c.fail_at) };
            let mut sim = LocomotiveSimulation::new(loco_of(*k), trace, c.interval);
            let r = guarded(|| sim.walk());
            let n = executed(c.len, c.fail_at);
            o.steps = n as u64;
            match r {
                Err(p) => o.fails.push(("panic@LocomotiveSimulation::walk".into(), p)),
                Ok(res) => {
                    if res.is_ok() != c.fail_at.is_none() {
                        // the hybrid may reject the plain trace: then only the alignment is checked against what ran
                        o.sig = format!("loco{k}:unexpected-{}", if res.is_ok() { "ok" } else { "err" });
                        let t = tree_of(&sim);
                        let n2 = sim.i - 1;
                        o.fails.extend(check_tree(&t, &expected_i(c.interval, n2, true), n2 as u64 + 1, c.interval, &format!("loco{k}"), &mut o.checks));
                        return o;
                    }
                    let t = tree_of(&sim);
                    o.fails.extend(check_tree(&t, &expected_i(c.interval, n, true), n as u64 + 1, c.interval, &format!("loco{k}"), &mut o.checks));
                    o.checks += 1;
                    if sim.i != n + 1 {
                        o.fails.push((format!("sim-counter:loco{k}"), format!("sim.i = {} after {} steps", sim.i, n)));
                    }
                }
            }
            o.sig = format!("loco{k}:iv{:?}:{}", c.interval, if c.fail_at.is_some() { "fail" } else { "ok" });
        }
        Kind::Consist(units) => {
            let locos: Vec<Locomotive> = units.iter().map(|u| loco_of(*u)).collect();
            let con = Consist::new(locos, c.interval, pdct(true));
            let mut sim = ConsistSimulation::new(con, power_trace(c.len, c.fail_at), c.interval);
            let r = guarded(|| sim.walk());
            let n = executed(c.len, c.fail_at);
            o.steps = n as u64;
            match r {
                Err(p) => o.fails.push(("panic@ConsistSimulation::walk".into(), p)),
                Ok(res) => {
                    let n2 = if res.is_ok() != c.fail_at.is_none() { sim.i - 1 } else { n };
                    let t = tree_of(&sim);
                    o.fails.extend(check_tree(&t, &expected_i(c.interval, n2, true), n2 as u64 + 1, c.interval, "consist", &mut o.checks));
                }
            }
            o.sig = format!("consist{}:iv{:?}:{}", units.len(), c.interval, if c.fail_at.is_some() { "fail" } else { "ok" });
        }
        Kind::SetSpeed(consist_kind) => {
            let spec = TrainSpec { n_loaded: 5, n_empty: 5, davis: false, mass_override: None, length_override: None, consist: *consist_kind, cd_vec: false };
            let b = builder(&spec, None, Some(InitTrainState::new(Some(0.0 * uc::S), None, Some(5.0 * uc::MPS))), c.interval);
            let time: Vec<f64> = (0..=c.len).map(|x| x as f64).collect();
            let speed: Vec<f64> = (0..=c.len).map(|i| if Some(i) == c.fail_at { -1.0 } else { 5.0 + 0.1 * i as f64 }).collect();
            let net = build_topology(&line_topology(&[5000.0], 20.0), false, SetStyle::Single);
            let mut sim = match b.make_set_speed_train_sim(&net, &[lidx(1)], SpeedTrace::new(time, speed, None), c.interval) {
                Ok(s) => s,
                Err(e) => {
                    o.fails.push(("build-failed@harness".into(), format!("{e:#}")));
                    return o;
                }
            };
            let r = guarded(|| sim.walk());
            let n = executed(c.len, c.fail_at);
            o.steps = n as u64;
            match r {
                Err(p) => o.fails.push(("panic@SetSpeedTrainSim::walk".into(), p)),
                Ok(res) => {
                    let n2 = if res.is_ok() != c.fail_at.is_none() { sim.state.i - 1 } else { n };
                    let t = tree_of(&sim);
                    o.fails.extend(check_tree(&t, &expected_i(c.interval, n2, true), n2 as u64 + 1, c.interval, "set-speed", &mut o.checks));
                }
            }
            o.sig = format!("set-speed{consist_kind}:iv{:?}:{}", c.interval, if c.fail_at.is_some() { "fail" } else { "ok" });
        }
        Kind::SpeedLimit { timed, break_at } => {
            // 3 x 400 m chain (short so that the run has ~100-200 steps); c.len selects the departure offset only
            let lens = [400.0, 400.0, 400.0];
            let net = build_topology(&line_topology(&lens, 15.0), false, SetStyle::Single);
            let spec = TrainSpec { n_loaded: 2, n_empty: 1, davis: false, mass_override: None, length_override: None, consist: if c.len % 2 == 0 { 0 } else { 2 }, cd_vec: false };
            let lm = location_map(&[("A", vec![1]), ("B", vec![3])]);
            let b = builder(&spec, Some(("A", "B")), Some(InitTrainState::new(Some(c.len as f64 * 10.0 * uc::S), None, None)), c.interval);
            let mut sim = match b.make_speed_limit_train_sim(&lm, c.interval, None, None) {
                Ok(s) => s,
                Err(e) => {
                    o.fails.push(("build-failed@harness".into(), format!("{e:#}")));
                    return o;
                }
            };
            let t0 = c.len as f64 * 10.0;
            let r = guarded(|| -> Result<(), String> {
                if *timed {
                    let mut tp: Vec<LinkIdxTime> = (0..3).map(|k| LinkIdxTime::new(lidx(k + 1), (t0 + 20.0 * k as f64) * uc::S)).collect();
                    if let Some(k) = break_at {
                        tp[*k].link_idx = lidx(1); // not contiguous: extend_path must fail there
                    }
                    sim.walk_timed_path(&net.0, &tp).map_err(|e| format!("{e:#}"))
                } else {
                    sim.extend_path(&net.0, &[lidx(1), lidx(2), lidx(3)]).map_err(|e| format!("{e:#}"))?;
                    sim.finish();
                    sim.walk().map_err(|e| format!("{e:#}"))
                }
            });
            match r {
                Err(p) => o.fails.push(("panic@SpeedLimitTrainSim::walk".into(), p)),
                Ok(_res) => {
                    let n = sim.state.i - 1;
                    o.steps = n as u64;
                    let t = tree_of(&sim);
                    o.fails.extend(check_tree(&t, &expected_i(c.interval, n, true), n as u64 + 1, c.interval, if *timed { "speed-limited-timed" } else { "speed-limited" }, &mut o.checks));
                    // fleet level: changing the interval on a vector of simulations reaches every nested object of every member
                    if !*timed {
                        let mut fleet = altrios_core::train::SpeedLimitTrainSimVec(vec![sim.clone(), sim.clone()]);
                        for x in [Some(4usize), None, Some(1)] {
                            fleet.set_save_interval(x);
                            for (k, m) in fleet.0.iter().enumerate() {
                                o.checks += 1;
                                if let Some(iv) = tree_of(m).intervals.iter().find(|iv| iv.1 != x.map(|y| y as u64)) {
                                    o.fails.push(("save-interval-not-propagated:fleet".into(), format!("member {k}: {} = {:?} after SpeedLimitTrainSimVec::set_save_interval({x:?})", iv.0, iv.1)));
                                }
                            }
                        }
                    }
                    // with every step saved the first row is the initial state
                    if c.interval == Some(1) && !sim.history.is_empty() {
                        o.checks += 1;
                        if sim.history.time[0].value != t0 {
                            o.fails.push(("first-row-not-the-initial-state:speed-limited".into(), format!("first saved time {} but the run starts at {}", sim.history.time[0].value, t0)));
                        }
                    }
                }
            }
            o.sig = format!("sl:timed={timed}:break={break_at:?}:iv{:?}", c.interval);
        }
        Kind::Seq { consist, actions } => {
            // actions: 0 step ok, 1 step failing, 2.. set_save_interval(None|1|2|3)
            let ivs = [None, Some(1usize), Some(2), Some(3)];
            let len = actions.len() + 2;
            let mut interval = c.interval;
            let mut exp_i: Vec<u64> = vec![];
            let mut n = 0usize;
            macro_rules! drive {
                ($sim:ident, $kind:expr) => {{
                    for (k, a) in actions.iter().enumerate() {
                        match a {
                            0 | 1 => {
                                let idx = $sim.i;
                                $sim.power_trace.pwr[idx] = if *a == 0 { 3.0e5 * uc::W } else { 1.0e12 * uc::W };
                                let before = tree_of(&$sim);
                                let r = guarded(|| $sim.step());
                                match r {
                                    Err(p) => {
                                        o.fails.push((format!("panic@step:{}", $kind), p));
                                        break;
                                    }
                                    Ok(Ok(())) => {
                                        n += 1;
                                        if let Some(x) = interval {
                                            if n % x == 0 {
                                                exp_i.push(n as u64);
                                            }
                                        }
                                    }
                                    Ok(Err(_)) => {
                                        // a failed step changes no length and no counter
                                        let after = tree_of(&$sim);
                                        o.checks += 1;
                                        let same = before.histories.iter().map(|h| h.1.len()).collect::<Vec<_>>() == after.histories.iter().map(|h| h.1.len()).collect::<Vec<_>>() && before.counters == after.counters;
                                        if !same {
                                            o.fails.push((format!("failed-step-changed-history-or-counter:{}", $kind), format!("action {k}: before {:?} / {:?}, after {:?} / {:?}", before.histories.iter().map(|h| h.1.len()).collect::<Vec<_>>(), before.counters, after.histories.iter().map(|h| h.1.len()).collect::<Vec<_>>(), after.counters)));
                                            break;
                                        }
                                    }
                                }
                            }
                            x => {
                                interval = ivs[(*x as usize - 2) % 4];
                                $sim.set_save_interval(interval);
                            }
                        }
                        let t = tree_of(&$sim);
                        // lengths/rows/counters/propagation after every action; the i-column against the reference model
                        let fl = check_tree(&t, &exp_i, n as u64 + 1, interval, $kind, &mut o.checks);
                        // (histories recorded under an earlier interval keep their rows: exp_i models exactly that)
                        if !fl.is_empty() {
                            o.fails.extend(fl);
                            break;
                        }
                    }
                }};
            }
            if *consist {
                let con = Consist::new(vec![loco_of(0), loco_of(1)], c.interval, pdct(false));
                let mut sim = ConsistSimulation::new(con, power_trace(len, None), c.interval);
                drive!(sim, "seq-consist");
            } else {
                let mut sim = LocomotiveSimulation::new(loco_of((c.len % 2) as u8), power_trace(len, None), c.interval);
                drive!(sim, "seq-loco");
            }
            o.steps = n as u64;
            let mut kinds: Vec<u8> = actions.iter().map(|a| (*a).min(2)).collect();
            kinds.dedup();
            o.sig = format!("seq:{}:{:?}", consist, kinds);
        }
        Kind::SeqNested { subject, actions } => {
            let ivs = [None, Some(1usize), Some(2), Some(3)];
            let len = actions.len() + 2;
            let mut interval = c.interval;
            let mut exp_i: Vec<u64> = vec![];
            let mut n = 0usize;
            // `uniform`: no nested unit has been reconfigured since the last top-level set; `aligned`: no step was saved while
            // the tree was non-uniform (afterwards only the propagation clause can be judged, lengths legitimately differ)
            let mut uniform = true;
            let mut aligned = true;
            macro_rules! drive_nested {
                ($sim:ident, $kind:expr, $idx:expr, $prep:expr) => {{
                    for a in actions.iter() {
                        match a {
                            0 | 1 => {
                                let idx = $idx(&$sim);
                                $prep(&mut $sim, idx, *a == 0);
                                match guarded(|| $sim.step()) {
                                    Err(p) => {
                                        o.fails.push((format!("panic@step:{}", $kind), p));
                                        break;
                                    }
                                    Ok(Ok(())) => {
                                        n += 1;
                                        if !uniform {
                                            aligned = false;
                                        }
                                        if let Some(x) = interval {
                                            if n % x == 0 {
                                                exp_i.push(n as u64);
                                            }
                                        }
                                    }
                                    Ok(Err(_)) => {}
                                }
                            }
                            6 => {
                                $sim.loco_con.loco_vec[0].set_save_interval(Some(5));
                                uniform = false;
                            }
                            x => {
                                interval = ivs[(*x as usize - 2) % 4];
                                $sim.set_save_interval(interval);
                                uniform = true;
                            }
                        }
                        if !uniform {
                            continue; // nothing is promised while one unit is on its own interval
                        }
                        let t = tree_of(&$sim);
                        let mut fl = check_tree(&t, &exp_i, n as u64 + 1, interval, $kind, &mut o.checks);
                        if !aligned {
                            fl.retain(|x| x.0.starts_with("save-interval-not-propagated"));
                        }
                        if !fl.is_empty() {
                            o.fails.extend(fl);
                            break;
                        }
                    }
                }};
            }
            if *subject == 0 {
                let con = Consist::new(vec![loco_of(0), loco_of(1), loco_of(0)], c.interval, pdct(false));
                let mut sim = ConsistSimulation::new(con, power_trace(len, None), c.interval);
                drive_nested!(sim, "seq-nested-consist", |s: &ConsistSimulation| s.i, |s: &mut ConsistSimulation, idx: usize, ok: bool| {
                    s.power_trace.pwr[idx] = if ok { 3.0e5 * uc::W } else { 1.0e12 * uc::W };
                });
            } else {
                let net = build_topology(&line_topology(&[1200.0, 900.0], 15.0), true, SetStyle::Map);
                let spec = TrainSpec { n_loaded: 2, n_empty: 1, davis: false, mass_override: None, length_override: None, consist: 2, cd_vec: false };
                let b = builder(&spec, None, Some(InitTrainState::new(Some(0.0 * uc::S), None, Some(3.0 * uc::MPS))), c.interval);
                let time: Vec<f64> = (0..=len).map(|x| x as f64).collect();
                let speed: Vec<f64> = (0..=len).map(|i| 3.0 + 0.1 * i as f64).collect();
                match b.make_set_speed_train_sim(&net, &[lidx(1), lidx(2)], SpeedTrace::new(time, speed, None), c.interval) {
                    Ok(mut sim) => {
                        drive_nested!(sim, "seq-nested-set-speed", |s: &altrios_core::train::SetSpeedTrainSim| s.state.i, |s: &mut altrios_core::train::SetSpeedTrainSim, idx: usize, ok: bool| {
                            s.speed_trace.speed[idx] = if ok { (3.0 + 0.1 * idx as f64) * uc::MPS } else { -1.0 * uc::MPS };
                        });
                    }
                    Err(e) => o.fails.push(("valid-train-rejected@harness".into(), format!("{e:#}"))),
                }
            }
            o.steps = n as u64;
            let mut kinds: Vec<u8> = actions.iter().map(|a| if *a >= 6 { 3 } else { (*a).min(2) }).collect();
            kinds.dedup();
            o.sig = format!("seq-nested:{}:{:?}", subject, kinds);
        }
    }
    o.fails.sort_by(|a, b| a.0.cmp(&b.0));
    o.fails.dedup_by(|a, b| a.0 == b.0);
    o
}

pub fn cases(tier: Tier) -> Vec<Case> {
    let mut v = vec![];
    let ivs = [None, Some(1usize), Some(2), Some(3), Some(7)];
    let max_len = if tier.is_thorough() { 16 } else { 12 };
    let mut lens: Vec<usize> = (0..=max_len).collect();
    if tier.is_thorough() {
        lens.extend([50, 101, 240]);
    } else {
        lens.push(50);
    }
    let mut kinds: Vec<Kind> = vec![Kind::Loco(0), Kind::Loco(1), Kind::Loco(2), Kind::Loco(3), Kind::Loco(4)];
    for n in 1..=3usize {
        for mask in 0..(1u32 << n) {
            kinds.push(Kind::Consist((0..n).map(|k| ((mask >> k) & 1) as u8).collect()));
        }
    }
    kinds.push(Kind::Consist(vec![0, 2]));
    kinds.push(Kind::Consist(vec![0, 3]));
    kinds.push(Kind::Consist(vec![3, 1, 2]));
    kinds.push(Kind::SetSpeed(0));
    kinds.push(Kind::SetSpeed(2));
    kinds.push(Kind::SetSpeed(3));
    for k in &kinds {
        for iv in ivs {
            for &len in &lens {
                v.push(Case { kind: k.clone(), interval: iv, len, fail_at: None });
                if len <= max_len {
                    for f in 1..=len {
                        v.push(Case { kind: k.clone(), interval: iv, len, fail_at: Some(f) });
                    }
                }
            }
        }
    }
    for iv in ivs {
        for len in 0..4 {
            v.push(Case { kind: Kind::SpeedLimit { timed: false, break_at: None }, interval: iv, len, fail_at: None });
            v.push(Case { kind: Kind::SpeedLimit { timed: true, break_at: None }, interval: iv, len, fail_at: None });
            v.push(Case { kind: Kind::SpeedLimit { timed: true, break_at: Some(1) }, interval: iv, len, fail_at: None });
            v.push(Case { kind: Kind::SpeedLimit { timed: true, break_at: Some(2) }, interval: iv, len, fail_at: None });
        }
    }
    // E-SEQ: every action sequence up to depth 5 (6) over 6 actions, both sim kinds, two initial intervals
    let depth = if tier.is_thorough() { 6 } else { 5 };
    let mut seqs: Vec<Vec<u8>> = vec![vec![]];
    let mut all: Vec<Vec<u8>> = vec![];
    for _ in 0..depth {
        let mut next = vec![];
        for s in &seqs {
            for a in 0..6u8 {
                let mut x = s.clone();
                x.push(a);
                next.push(x);
            }
        }
        all.extend(next.iter().cloned());
        seqs = next;
    }
    // nested E-SEQ: every sequence of the same depth over 7 actions that contains the nested reconfiguration (6) at least once
    {
        let mut seqs: Vec<Vec<u8>> = vec![vec![]];
        for _ in 0..depth {
            let mut next = vec![];
            for s in &seqs {
                for a in 0..7u8 {
                    let mut x = s.clone();
                    x.push(a);
                    next.push(x);
                }
            }
            seqs = next;
        }
        for s in seqs {
            if !s.contains(&6) {
                continue;
            }
            for subject in [0u8, 1] {
                for iv in [Some(1usize), Some(5)] {
                    v.push(Case { kind: Kind::SeqNested { subject, actions: s.clone() }, interval: iv, len: s.len(), fail_at: None });
                }
            }
        }
    }
    for s in all {
        if s.len() < depth {
            continue; // prefixes are checked after every action of the longer sequences
        }
        for consist in [false, true] {
            for iv in [Some(1usize), None] {
                v.push(Case { kind: Kind::Seq { consist, actions: s.clone() }, interval: iv, len: s.iter().map(|x| *x as usize).sum::<usize>(), fail_at: None });
            }
        }
    }
    v
}

pub struct C19;
impl Prop for C19 {
    fn id(&self) -> &'static str {
        "C19"
    }
    fn rule(&self, tier: Tier) -> String {
        format!("E-SHAPE on the real walk(): simulation kinds {{LocomotiveSimulation conv/BEL/hybrid/hybrid with a flat battery/conv with an engine on-None-off pattern, ConsistSimulation over all {{conv,BEL}}^n n<=3 (+ conv+hybrid, conv+flat hybrid, flat hybrid+BEL+hybrid), SetSpeedTrainSim with 3 consists, SpeedLimitTrainSim walk and walk_timed_path (also broken at entry 1 / 2 by a non-contiguous link)}} x save interval in {{None,1,2,3,7}} x every run length 0..{} (+ long runs) x every position of a failing step (demand no unit can meet / negative trace speed); E-SEQ: every sequence of {} actions from {{step ok, step failing, set_save_interval(None|1|2|3)}} on a LocomotiveSimulation and a ConsistSimulation, oracle after every action; nested E-SEQ: every sequence of the same length over those actions plus 'set ONE nested locomotive's interval behind the top level's back' (at least once) on a three-unit ConsistSimulation and on a SetSpeedTrainSim, starting from intervals 1 and 5 (5 = the value the nested unit is set to): after every top-level set the interval must have reached every nested object again. The object tree is inspected generically through its serialized form (every nested history, state.i and save_interval). distinct_nontrivial = distinct (kind, interval, ok/fail, action-shape) signatures.", if tier.is_thorough() { 16 } else { 12 }, if tier.is_thorough() { 6 } else { 5 })
    }
    fn assumptions(&self) -> Vec<String> {
        vec![
            "expected saved steps: executed step indices divisible by the interval, plus the initial state when the interval is 1 (walk() saves before the first step)".into(),
            "a `state` omitted by the serializer equals its default (i = 1)".into(),
        ]
    }
    fn explore(&self, ctx: &mut Ctx) {
        let cs = cases(ctx.tier);
        for block in cs.chunks(32) {
            if !ctx.claim() {
                continue;
            }
            for c in block {
                let o = run_case(c);
                ctx.evaluation();
                ctx.stats.states += o.steps + 1;
                ctx.stats.transitions += o.steps.max(1);
                ctx.checks(o.checks);
                ctx.sig(&o.sig);
                ctx.sample(|| serde_json::to_value(c).unwrap());
                for (k, w) in o.fails {
                    let size = c.len as u64 + c.fail_at.unwrap_or(0) as u64;
                    if ctx.wants_violation(&k, size) {
                        ctx.violation(&k, w, serde_json::to_value(c).unwrap(), size);
                    } else {
                        ctx.count_violation_only(&k);
                    }
                }
            }
        }
        ctx.finish();
    }
    fn replay(&self, case: &Value) -> ReplayOutcome {
        let c: Case = match serde_json::from_value(case.clone()) {
            Ok(c) => c,
            Err(e) => return ReplayOutcome { violations: vec![("bad-replay-file".into(), e.to_string())], observation: String::new() },
        };
        let o = run_case(&c);
        ReplayOutcome { violations: o.fails, observation: format!("steps={} sig={}", o.steps, o.sig) }
    }
}

#[allow(dead_code)]
fn _unused() {
    let _ = topologies;
}
