//! C06: path geometry handed to the train model equals the network's geometry.
//! E-SHAPE over link sequences (contiguous and not) of catalogue networks x every composition of the route
//! into `extend` calls x finish or not.

use crate::domain::net::*;
use crate::engine::{close_tol, guarded, Ctx, Prop, ReplayOutcome, Tier};
use altrios_core::track::{Link, LinkIdx, Network, PathTpc, TrainParams};
use altrios_core::validate::ObjState;
use serde::{Deserialize, Serialize};
use serde_json::Value;

#[derive(Debug, Clone, Serialize, Deserialize, PartialEq)]
pub struct Case {
    pub net: usize,
    pub seq: Vec<usize>,
    pub partition: Vec<usize>,
    pub finish: bool,
}

/// catalogue networks: (name, network)
pub fn networks() -> Vec<(String, Network)> {
    let mut v = vec![];
    // line of 4: lengths 5 / 150 / 1000 / 4000 with all elevation + heading + catenary patterns
    for (name, lens, ek, hk, ck) in [
        ("line4-a", vec![5.0, 150.0, 1000.0, 4000.0], vec![1u8, 3, 4, 2], vec![0u8, 2, 3, 4], vec![0u8, 1, 2, 0]),
        ("line4-b", vec![4000.0, 5.0, 5.0, 150.0], vec![4u8, 0, 2, 1], vec![5u8, 1, 0, 2], vec![2u8, 0, 1, 1]),
        ("line3-c", vec![1000.0, 150.0, 1000.0], vec![2u8, 2, 3], vec![4u8, 5, 3], vec![1u8, 2, 2]),
    ] {
        let mut t = line_topology(&lens, 20.0);
        let mut e = 100.0;
        for (i, f) in t.iter_mut().enumerate() {
            let (pts, end) = elev_pattern(ek[i], f.length_m, e);
            f.elevs = pts;
            e = end;
            f.headings = heading_pattern(hk[i], f.length_m);
            f.cat = cat_pattern(ck[i], f.length_m);
        }
        v.push((name.to_string(), build_topology(&t, true, SetStyle::Single)));
    }
    // line of 3 whose recorded elevations DISAGREE at the junctions (+2 m step into link 2, -3.5 m step into link 3):
    // valid for network validation; the path must carry the walked (accumulated) elevation
    {
        let lens = vec![1000.0, 150.0, 1000.0];
        let mut t = line_topology(&lens, 20.0);
        let mut e = 100.0;
        for (i, f) in t.iter_mut().enumerate() {
            let start = e + [0.0, 2.0, -3.5][i];
            let (pts, end) = elev_pattern([3u8, 2, 4][i], f.length_m, start);
            f.elevs = pts;
            e = end;
            f.headings = heading_pattern([2u8, 0, 3][i], f.length_m);
        }
        v.push(("line3-step".to_string(), build_topology(&t, true, SetStyle::Single)));
    }
    // siding: A -> [B | C] -> D with continuous elevations (B and C have the same net change)
    {
        let mut t = siding_topology(1000.0, 150.0, 150.0, 1000.0, 20.0);
        let (pa, ea) = elev_pattern(1, 1000.0, 50.0);
        t[0].elevs = pa;
        let (pb, eb) = elev_pattern(3, 150.0, ea);
        t[1].elevs = pb;
        let (pc, _) = elev_pattern(0, 150.0, ea);
        t[2].elevs = pc;
        let (pd, _) = elev_pattern(4, 1000.0, eb);
        t[3].elevs = pd;
        t[0].headings = heading_pattern(2, 1000.0);
        t[2].headings = heading_pattern(4, 150.0);
        t[3].headings = heading_pattern(3, 1000.0);
        t[1].cat = cat_pattern(2, 150.0);
        t[3].cat = cat_pattern(1, 1000.0);
        v.push(("siding".to_string(), build_topology(&t, true, SetStyle::Map)));
    }
    // Y merge without flips
    {
        let mut t = y_merge_topology(1000.0, 150.0, 4000.0, 20.0);
        let (pa, ea) = elev_pattern(2, 1000.0, 80.0);
        t[0].elevs = pa;
        let (pb, _) = elev_pattern(1, 150.0, ea - 1.5);
        t[1].elevs = pb;
        let (pc, _) = elev_pattern(4, 4000.0, ea);
        t[2].elevs = pc;
        t[1].headings = heading_pattern(5, 150.0);
        t[2].headings = heading_pattern(4, 4000.0);
        t[2].cat = cat_pattern(2, 4000.0);
        v.push(("y-merge".to_string(), build_topology(&t, false, SetStyle::Single)));
    }
    v
}

fn contiguous(net: &[Link], seq: &[usize]) -> bool {
    if seq.iter().any(|&i| i == 0) {
        return false;
    }
    seq.windows(2).all(|w| {
        let l = &net[w[1]];
        l.idx_prev.idx() == w[0] || l.idx_prev_alt.idx() == w[0]
    })
}

/// every composition of n into positive parts
fn compositions(n: usize) -> Vec<Vec<usize>> {
    let mut out = vec![];
    if n == 0 {
        return out;
    }
    for mask in 0..(1u32 << (n - 1)) {
        let mut part = vec![];
        let mut run = 1usize;
        for b in 0..(n - 1) {
            if mask & (1 << b) != 0 {
                part.push(run);
                run = 1;
            } else {
                run += 1;
            }
        }
        part.push(run);
        out.push(part);
    }
    out
}

fn wrap_abs(d: f64) -> f64 {
    // minimal absolute angular difference
    let two_pi = 2.0 * std::f64::consts::PI;
    let mut x = d % two_pi;
    if x < 0.0 {
        x += two_pi;
    }
    if x > std::f64::consts::PI {
        two_pi - x
    } else {
        x
    }
}

pub fn build(net: &Network, tp: &TrainParams, c: &Case) -> Result<PathTpc, String> {
    let mut p = PathTpc::new(*tp);
    let mut k = 0;
    for n in &c.partition {
        let idxs: Vec<LinkIdx> = c.seq[k..k + n].iter().map(|&i| lidx(i)).collect();
        k += n;
        p.extend(net, &idxs).map_err(|e| format!("{e:#}"))?;
    }
    if c.finish {
        p.finish();
    }
    Ok(p)
}

pub fn evaluate(net: &Network, tp: &TrainParams, c: &Case, checks: &mut u64) -> (Vec<(String, String)>, String) {
    let mut v: Vec<(String, String)> = vec![];
    let links = &net.0;
    let is_contig = contiguous(links, &c.seq);
    let r = guarded(|| build(net, tp, c));
    let path = match r {
        Err(p) => {
            v.push((format!("panic@PathTpc::extend:{}", if is_contig { "contiguous" } else { "non-contiguous" }), p.chars().take(200).collect()));
            return (v, "panic".into());
        }
        Ok(Err(e)) => {
            *checks += 1;
            if is_contig {
                v.push(("contiguous-route-rejected@PathTpc::extend".into(), e.chars().take(300).collect()));
            } else {
                // a non-contiguous route must be rejected however it is split into extend calls
                for part in compositions(c.seq.len()) {
                    if part == c.partition {
                        continue;
                    }
                    *checks += 1;
                    let c2 = Case { partition: part.clone(), ..c.clone() };
                    match guarded(|| build(net, tp, &c2)) {
                        Ok(Ok(_)) => v.push(("non-contiguous-route-accepted@PathTpc::extend".into(), format!("sequence {:?} is not contiguous but is accepted when extended as {:?}", c.seq, part))),
                        Ok(Err(_)) => {}
                        Err(p) => v.push(("panic@PathTpc::extend:non-contiguous".into(), p.chars().take(200).collect())),
                    }
                }
            }
            return (v, "err".into());
        }
        Ok(Ok(p)) => p,
    };
    *checks += 1;
    if !is_contig {
        v.push(("non-contiguous-route-accepted@PathTpc::extend".into(), format!("sequence {:?} is not contiguous but extend returned Ok", c.seq)));
        return (v, "ok-noncontig".into());
    }
    let mut t = |ok: bool, key: &str, what: String| {
        *checks += 1;
        if !ok {
            v.push((key.to_string(), what));
        }
    };
    // ---- link points
    let lp = path.link_points();
    t(lp.len() == c.seq.len() + 1, "link-point-count@PathTpc::extend", format!("{} link points for {} links", lp.len(), c.seq.len()));
    if lp.len() != c.seq.len() + 1 {
        return (v, "bad".into());
    }
    let mut base = vec![0.0];
    for &i in &c.seq {
        base.push(base.last().unwrap() + links[i].length.value);
    }
    for (k, p) in lp.iter().enumerate() {
        t(p.offset.value == base[k], "segment-boundary-not-at-cumulative-length@PathTpc::extend", format!("link point {k} at {} expected {}", p.offset.value, base[k]));
        if k < c.seq.len() {
            let l = &links[c.seq[k]];
            t(p.link_idx.idx() == c.seq[k], "link-point-link-idx@PathTpc::extend", format!("link point {k} names link {} expected {}", p.link_idx.idx(), c.seq[k]));
            t(p.grade_count == l.elevs.len().max(2) - 1, "grade-count@PathTpc::extend", format!("link {k}: grade_count {} for {} elevation points", p.grade_count, l.elevs.len()));
            t(p.curve_count == l.headings.len().max(2) - 1, "curve-count@PathTpc::extend", format!("link {k}: curve_count {} for {} heading points", p.curve_count, l.headings.len()));
            t(p.cat_power_count == l.cat_power_limits.len(), "cat-count@PathTpc::extend", format!("link {k}: cat_power_count {}", p.cat_power_count));
        } else {
            t(p.link_idx.idx() == 0, "last-link-point-not-dummy@PathTpc::extend", format!("{}", p.link_idx.idx()));
        }
    }
    // ---- reference geometry: walk the route's own points
    // elevation breakpoints (path offset, elevation) and curve breakpoints (path offset, cumulative curve resistance)
    let mut eref: Vec<(f64, f64)> = vec![];
    let mut cref: Vec<(f64, f64, f64)> = vec![]; // offset, cumulative res, coeff of the segment starting here
    let mut cum = 0.0;
    let one_degree = 1.745_329_251_994_329_5e-2 / 30.48;
    let (c0, c1, c2) = (tp.curve_coeff_0.value, tp.curve_coeff_1.value, tp.curve_coeff_2.value);
    // walking = accumulating the differences inside each link: where the recorded elevations of two consecutive links
    // disagree at their junction the later link is shifted onto the end of the earlier one (shift 0 when continuous)
    let mut shift = 0.0;
    let mut last_y: Option<f64> = None;
    for (k, &i) in c.seq.iter().enumerate() {
        let l = &links[i];
        if let (Some(ly), Some(first)) = (last_y, l.elevs.first()) {
            shift = ly - first.elev.value;
        }
        for (j, e) in l.elevs.iter().enumerate() {
            if k > 0 && j == 0 {
                continue; // the previous link's last point stands for the junction
            }
            eref.push((base[k] + e.offset.value, e.elev.value + shift));
        }
        if let Some(e) = l.elevs.last() {
            last_y = Some(e.elev.value + shift);
        }
        if l.headings.is_empty() {
            cref.push((base[k], cum, 0.0));
        } else {
            for w in l.headings.windows(2) {
                let len = w[1].offset.value - w[0].offset.value;
                let curv = wrap_abs(w[1].heading.value - w[0].heading.value) / len;
                let coeff = if curv < one_degree { c0 * curv } else { c0 * one_degree + c1 * (curv - one_degree) + c2 * (curv - one_degree) * (curv - one_degree) };
                cref.push((base[k] + w[0].offset.value, cum, coeff));
                cum += coeff * len;
            }
        }
    }
    cref.push((*base.last().unwrap(), cum, 0.0));
    let e_at = |x: f64| -> f64 {
        let mut k = 0;
        while k + 2 < eref.len() && eref[k + 1].0 <= x {
            k += 1;
        }
        let (x0, y0) = eref[k];
        let (x1, y1) = eref[k + 1];
        y0 + (y1 - y0) * (x - x0) / (x1 - x0)
    };
    let c_at = |x: f64| -> (f64, f64) {
        let mut k = 0;
        while k + 1 < cref.len() && cref[k + 1].0 <= x {
            k += 1;
        }
        (cref[k].1 + cref[k].2 * (x - cref[k].0), cref[k].2)
    };
    // ---- grades
    let g = path.grades();
    let n_g_expected: usize = c.seq.iter().map(|&i| links[i].elevs.len().max(2) - 1).sum::<usize>() + 1 + c.finish as usize;
    t(g.len() == n_g_expected, "grade-point-count@PathTpc::extend", format!("{} grade points expected {}", g.len(), n_g_expected));
    let total = *base.last().unwrap();
    let imp_val = |arr: &[altrios_core::track::PathResCoeff], x: f64| -> (f64, f64) {
        // implementation's own evaluation rule: segment containing x
        let mut k = 0;
        while k + 1 < arr.len() && arr[k + 1].offset.value <= x {
            k += 1;
        }
        (arr[k].calc_res_val(x * altrios_core::uc::M).value, arr[k].res_coeff.value)
    };
    // sample positions: midpoints and 7 interior points of every reference segment
    let mut xs: Vec<f64> = vec![];
    let mut bps: Vec<f64> = eref.iter().map(|p| p.0).chain(cref.iter().map(|p| p.0)).collect();
    bps.sort_by(|a, b| a.partial_cmp(b).unwrap());
    bps.dedup();
    for w in bps.windows(2) {
        for j in 1..8 {
            xs.push(w[0] + (w[1] - w[0]) * j as f64 / 8.0);
        }
    }
    let mut bad_e = None;
    let mut bad_s = None;
    let mut bad_c = None;
    let mut bad_cc = None;
    for &x in &xs {
        let (ev, es) = imp_val(g, x);
        let er = e_at(x);
        let h = 1e-3_f64.min(total * 1e-6);
        let sr = (e_at(x + h) - e_at(x - h)) / (2.0 * h);
        *checks += 4;
        if !close_tol(ev, er, 1e-9, 1e-7) && bad_e.is_none() {
            bad_e = Some((x, ev, er));
        }
        if !close_tol(es, sr, 1e-6, 1e-9) && bad_s.is_none() {
            bad_s = Some((x, es, sr));
        }
        let (cv, cs) = imp_val(path.curves(), x);
        let (cr, csr) = c_at(x);
        if !close_tol(cv, cr, 1e-9, 1e-9) && bad_c.is_none() {
            bad_c = Some((x, cv, cr));
        }
        if !close_tol(cs, csr, 1e-9, 1e-12) && bad_cc.is_none() {
            bad_cc = Some((x, cs, csr));
        }
    }
    if let Some((x, a, b)) = bad_e {
        v.push(("elevation-differs-from-network@PathTpc::extend:grades".into(), format!("at x={x}: path elevation {a}, walking the route's elevation points gives {b}")));
    }
    if let Some((x, a, b)) = bad_s {
        v.push(("grade-differs-from-slope@PathTpc::extend:grades".into(), format!("at x={x}: res_coeff {a}, slope of the elevation points {b}")));
    }
    if let Some((x, a, b)) = bad_c {
        v.push(("cumulative-curve-resistance-differs@PathTpc::extend:curves".into(), format!("at x={x}: path {a}, reference {b}")));
    }
    if let Some((x, a, b)) = bad_cc {
        v.push(("curve-coefficient-differs-from-heading-change-rate@PathTpc::extend:curves".into(), format!("at x={x}: res_coeff {a}, |wrap(d heading)|/d offset through the three-coefficient formula gives {b}")));
    }
    // ---- catenary
    let mut cat_ref: Vec<(f64, f64, f64)> = vec![];
    for (k, &i) in c.seq.iter().enumerate() {
        for cp in &links[i].cat_power_limits {
            cat_ref.push((base[k] + cp.offset_start.value, base[k] + cp.offset_end.value, cp.power_limit.value));
        }
    }
    let cat_imp: Vec<(f64, f64, f64)> = path.cat_power_limits().iter().map(|c| (c.offset_start.value, c.offset_end.value, c.power_limit.value)).collect();
    *checks += 1;
    if cat_imp != cat_ref {
        v.push(("catenary-not-shifted-by-segment-offset@PathTpc::extend".into(), format!("path {:?} expected {:?}", cat_imp, cat_ref)));
    }
    // ---- internal index counts mutually consistent (the same index arithmetic the train model relies on:
    // cumulative grade/curve/cat counts of the link points address the point that starts each link).
    // PathTpc::validate itself is NOT used: it also demands bit-exact float identities between res_coeff and
    // res_net differences, which the property does not state (see DESIGN, C06 false alarm).
    {
        let (mut gi, mut ci, mut ki) = (0usize, 0usize, 0usize);
        let cu = path.curves();
        for (k, p) in lp.iter().enumerate() {
            *checks += 1;
            let okg = gi < g.len() && g[gi].offset.value == p.offset.value;
            let okc = ci < cu.len() && cu[ci].offset.value == p.offset.value;
            let okk = ki <= cat_imp.len();
            if !(okg && okc && okk) {
                v.push(("index-counts-inconsistent@PathTpc::extend".into(), format!("link point {k} at offset {}: cumulative counts (grade {gi}, curve {ci}, cat {ki}) do not address a point at that offset", p.offset.value)));
                break;
            }
            gi += p.grade_count;
            ci += p.curve_count;
            ki += p.cat_power_count;
        }
    }
    // ---- differential: every other composition gives the identical path
    let n = c.seq.len();
    if n > 1 {
        for mask in 0..(1u32 << (n - 1)) {
            let mut part = vec![];
            let mut run = 1usize;
            for b in 0..(n - 1) {
                if mask & (1 << b) != 0 {
                    part.push(run);
                    run = 1;
                } else {
                    run += 1;
                }
            }
            part.push(run);
            if part == c.partition {
                continue;
            }
            *checks += 1;
            let c2 = Case { partition: part.clone(), ..c.clone() };
            match guarded(|| build(net, tp, &c2)) {
                Ok(Ok(p2)) => {
                    if p2 != path {
                        v.push(("extension-partition-differs@PathTpc::extend".into(), format!("partition {:?} and partition {:?} build different paths", c.partition, part)));
                    }
                }
                Ok(Err(e)) => v.push(("contiguous-route-rejected@PathTpc::extend".into(), format!("partition {:?}: {}", part, e.chars().take(200).collect::<String>()))),
                Err(p) => v.push(("panic@PathTpc::extend:contiguous".into(), p.chars().take(200).collect())),
            }
        }
    }
    let obs = format!("lp={} g={} c={} cat={}", lp.len(), g.len(), path.curves().len(), cat_imp.len());
    (v, obs)
}

pub struct C06;

fn all_seqs(n_links: usize, max_len: usize) -> Vec<Vec<usize>> {
    // over indices 0..n_links (0 = dummy, must be rejected)
    let mut out = vec![];
    let mut cur: Vec<Vec<usize>> = vec![vec![]];
    for _ in 0..max_len {
        let mut next = vec![];
        for c in &cur {
            for i in 0..n_links {
                let mut x = c.clone();
                x.push(i);
                next.push(x);
            }
        }
        out.extend(next.iter().cloned());
        cur = next;
    }
    out
}

impl Prop for C06 {
    fn id(&self) -> &'static str {
        "C06"
    }
    fn rule(&self, tier: Tier) -> String {
        format!("E-SHAPE: 5 catalogue networks (two 4-link lines and one 3-link line with link lengths 5/150/1000/4000 m and every elevation pattern (flat, +1 %, -1.5 %, vee, 4 points), heading pattern (absent, straight, gentle curve, sharp+gentle, wrap-around in both directions) and catenary pattern (none, one, two sections); a passing siding; a Y merge) with flips; EVERY link sequence of length <= {} over each network's links and the dummy index (contiguous and non-contiguous) x the one-call build (every other composition into extend calls is compared differentially with ==) x finish() or not; plus every full-length route of the 4-link lines. Oracle: reference geometry from walking the route's own elevation/heading/catenary points, compared at 7 interior points of every segment. distinct_nontrivial = distinct (network, contiguous?, length, outcome, which features the route carries) signatures.", if tier.is_thorough() { 5 } else { 4 })
    }
    fn assumptions(&self) -> Vec<String> {
        vec![
            "the reference elevation accumulates the differences inside each link (walking); one catalogue network has recorded elevations that disagree at both junctions".into(),
            "link indices outside the network are not generated (not a route of the network)".into(),
            "reference curvature = minimal absolute angular difference / length, through the documented three-coefficient formula".into(),
        ]
    }
    fn explore(&self, ctx: &mut Ctx) {
        let nets = networks();
        let tp = train_params(300.0, 25.0);
        let max_len = if ctx.tier.is_thorough() { 5 } else { 4 };
        for (ni, (name, net)) in nets.iter().enumerate() {
            let n_links = net.0.len();
            let mut seqs = all_seqs(n_links, max_len);
            // full-length routes of the line networks (forward and reverse)
            if name.starts_with("line4") && max_len < 4 {
                seqs.push(vec![1, 2, 3, 4]);
                seqs.push(vec![8, 7, 6, 5]);
            }
            for seq in seqs {
                if !ctx.claim() {
                    continue;
                }
                for finish in [false, true] {
                    let c = Case { net: ni, partition: vec![seq.len()], seq: seq.clone(), finish };
                    let mut checks = 0;
                    let (v, obs) = evaluate(net, &tp, &c, &mut checks);
                    ctx.checks(checks);
                    ctx.evaluation();
                    ctx.state();
                    ctx.stats.transitions += seq.len() as u64;
                    let contig = contiguous(&net.0, &seq);
                    let feats: String = if contig {
                        let mut f: Vec<String> = seq.iter().map(|&i| format!("e{}h{}c{}L{}", net.0[i].elevs.len(), net.0[i].headings.len(), net.0[i].cat_power_limits.len(), net.0[i].length.value as u64)).collect();
                        f.sort();
                        f.dedup();
                        f.join("+")
                    } else {
                        String::new()
                    };
                    ctx.sig(&format!("{name}:{}:{}:{}:{}", contig, seq.len(), if obs == "err" || obs == "panic" { obs.as_str() } else { "ok" }, feats));
                    if contig {
                        ctx.sample(|| serde_json::to_value(&c).unwrap());
                    }
                    for (k, w) in v {
                        ctx.violation(&k, w, serde_json::to_value(&c).unwrap(), seq.len() as u64);
                    }
                }
            }
        }
        ctx.finish();
    }
    fn replay(&self, case: &Value) -> ReplayOutcome {
        let c: Case = match serde_json::from_value(case.clone()) {
            Ok(c) => c,
            Err(e) => return ReplayOutcome { violations: vec![("bad-replay-file".into(), e.to_string())], observation: String::new() },
        };
        let nets = networks();
        let tp = train_params(300.0, 25.0);
        let mut checks = 0;
        let (v, obs) = evaluate(&nets[c.net].1, &tp, &c, &mut checks);
        ReplayOutcome { violations: v, observation: obs }
    }
}
