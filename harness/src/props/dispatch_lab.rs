//! DispatchLab: E-SHAPE over scenarios (topology x ordered train sets), one real `run_dispatch` each; with hook H1
//! the dispatch state is observed after every train move and at the end.  Oracles C04 (occupancy) and C05 (plan).

use crate::domain::disp::*;
use crate::engine::{guarded, Ctx, Prop, ReplayOutcome, Tier};
use altrios_core::meet_pass::disp_structs::EstType;
use altrios_core::meet_pass::dispatch::run_dispatch;
use altrios_core::meet_pass::est_times::EstTimeNet;
use altrios_core::train::LinkIdxTime;
use altrios_core::validate::ObjState;
use altrios_core::verif_hooks::{set_dispatch_observer, DispatchPhase, DispatchView};
use serde::{Deserialize, Serialize};
use serde_json::Value;
use std::cell::RefCell;
use std::rc::Rc;

#[derive(Debug, Clone, Serialize, Deserialize, PartialEq)]
pub struct Scenario {
    pub topo: String,
    pub trains: Vec<TrainDesc>,
}

#[derive(Debug, Clone)]
pub struct NodeSnap {
    pub link: usize,
    /// 0 arrive, 1 clear, 2 fake
    pub ty: u8,
    pub time: f64,
    pub est_idx: usize,
}
#[derive(Debug, Clone)]
pub struct TrainSnap {
    pub nodes: Vec<NodeSnap>,
    pub idx_fixed: usize,
    pub idx_free: usize,
    pub idx_front: usize,
    pub idx_back: usize,
    pub finished: bool,
    pub blocked: bool,
    pub spacing: f64,
    pub n_div: usize,
}
#[derive(Debug, Clone)]
pub struct Snap {
    pub fin: bool,
    /// 0 after one outer-loop move, 1 after one tentative advance inside the inner loop, 2 right after a rewind, 3 final
    pub phase: u8,
    /// complete authority table: per link, per authority (train, arrive_entry, arrive_exit, clear_entry, clear_exit, offset_front, offset_back)
    pub auths: Vec<Vec<(usize, [f64; 6])>>,
    pub moved: usize,
    pub trains: Vec<TrainSnap>,
    /// links_blocked as train indices (0 = none)
    pub links_blocked: Vec<usize>,
    /// per link: (train idx, offset_back finite?) of the current last authority
    pub last_auth: Vec<(usize, bool)>,
}

fn take_snap(v: &DispatchView) -> Snap {
    let trains = v.train_disps[1..]
        .iter()
        .map(|t| TrainSnap {
            nodes: t
                .verif_disp_path()
                .iter()
                .map(|n| NodeSnap {
                    link: n.link_event.link_idx.idx(),
                    ty: match n.link_event.est_type {
                        EstType::Arrive => 0,
                        EstType::Clear => 1,
                        EstType::Fake => 2,
                    },
                    time: n.time_pass.value,
                    est_idx: n.est_idx as usize,
                })
                .collect(),
            idx_fixed: t.verif_idx_fixed(),
            idx_free: t.verif_idx_free(),
            idx_front: t.verif_idx_front(),
            idx_back: t.verif_idx_back(),
            finished: t.is_finished(),
            blocked: t.is_blocked(),
            spacing: t.verif_time_spacing().value,
            n_div: t.verif_div_nodes().len(),
        })
        .collect();
    Snap {
        fin: v.phase == DispatchPhase::Final,
        phase: match v.phase {
            DispatchPhase::AfterMove => 0,
            DispatchPhase::AfterAdvance => 1,
            DispatchPhase::AfterRewind => 2,
            DispatchPhase::Final => 3,
        },
        auths: v
            .link_disp_auths
            .iter()
            .map(|a| a.iter().map(|d| (d.train_idx.map(|y| u16::from(y) as usize).unwrap_or(0), [d.arrive_entry.value, d.arrive_exit.value, d.clear_entry.value, d.clear_exit.value, d.offset_front.value, d.offset_back.value])).collect())
            .collect(),
        moved: v.train_idx_moved.map(|x| u16::from(x) as usize).unwrap_or(0),
        trains,
        links_blocked: v.links_blocked.iter().map(|x| x.map(|y| u16::from(y) as usize).unwrap_or(0)).collect(),
        last_auth: v.link_disp_auths.iter().map(|a| a.last().map(|d| (d.train_idx.map(|y| u16::from(y) as usize).unwrap_or(0), d.offset_back.value.is_finite())).unwrap_or((0, false))).collect(),
    }
}

/// occupancy window of one train on one link, recomputed from its disp_path
#[derive(Debug, Clone)]
pub struct Window {
    pub train: usize,
    pub link: usize,
    /// front enters
    pub start: f64,
    /// tail has entered completely (Clear event of this link)
    pub clear_entry: f64,
    /// front leaves (Arrive of the next link), inf if not yet
    pub front_exit: f64,
    /// tail leaves (Clear event of the next link), inf if not yet
    pub end: f64,
    pub spacing: f64,
    /// the train's path ends on this link (the destination link is a sink: the train leaves the model there)
    pub terminates: bool,
}

pub fn windows(s: &Snap) -> Vec<Window> {
    let mut out = vec![];
    for (ti, t) in s.trains.iter().enumerate() {
        let arrives: Vec<&NodeSnap> = t.nodes.iter().filter(|n| n.ty == 0).collect();
        let clears: Vec<&NodeSnap> = t.nodes.iter().filter(|n| n.ty == 1).collect();
        let last_time = t.nodes.last().map(|n| n.time).unwrap_or(f64::INFINITY);
        for (k, a) in arrives.iter().enumerate() {
            if !a.time.is_finite() {
                continue;
            }
            let clear_entry = clears.iter().find(|c| c.link == a.link).map(|c| c.time).unwrap_or(f64::INFINITY);
            let (front_exit, end) = if k + 1 < arrives.len() {
                let nl = arrives[k + 1].link;
                (arrives[k + 1].time, clears.iter().find(|c| c.link == nl).map(|c| c.time).unwrap_or(f64::INFINITY))
            } else if t.finished {
                (last_time, last_time)
            } else {
                (f64::INFINITY, f64::INFINITY)
            };
            // a finished train has left the model at the time of its last node: a tail that never "cleared" into the next link
            // (terminal link shorter than the train) is out of every link from then on
            let (front_exit, end) = if t.finished && last_time.is_finite() { (front_exit.min(last_time), end.min(last_time)) } else { (front_exit, end) };
            out.push(Window { train: ti + 1, link: a.link, start: a.time, clear_entry, front_exit, end, spacing: t.spacing, terminates: k + 1 == arrives.len() });
        }
    }
    out
}

pub type Fails = Vec<(String, String)>;

fn disjoint(a: &Window, b: &Window) -> bool {
    a.end <= b.start + 1e-6 || b.end <= a.start + 1e-6
}

pub fn oracle_c04(t: &Topo, s: &Snap, checks: &mut u64) -> Fails {
    let mut f: Fails = vec![];
    let w = windows(s);
    let links = &t.net.0;
    let phase = match s.phase {
        3 => "final",
        1 => "tentative",
        _ => "intermediate",
    };
    for i in 0..w.len() {
        for j in (i + 1)..w.len() {
            let (a, b) = (&w[i], &w[j]);
            if a.train == b.train {
                continue;
            }
            // (i) opposite directions on one physical segment
            if links[a.link].idx_flip.idx() == b.link && b.link != 0 {
                *checks += 1;
                if !disjoint(a, b) {
                    f.push((format!("opposing-trains-share-segment@run_dispatch:{phase}"), format!("train {} holds link {} during [{}, {}] and train {} holds its flip {} during [{}, {}]", a.train, a.link, a.start, a.end, b.train, b.link, b.start, b.end)));
                }
            }
            // (ii) lockouts
            if links[a.link].link_idxs_lockout.iter().any(|k| k.idx() == b.link) || links[b.link].link_idxs_lockout.iter().any(|k| k.idx() == a.link) {
                *checks += 1;
                if !disjoint(a, b) {
                    f.push((format!("mutually-exclusive-segments-held-together@run_dispatch:{phase}"), format!("train {} holds link {} during [{}, {}] and train {} holds locked-out link {} during [{}, {}]", a.train, a.link, a.start, a.end, b.train, b.link, b.start, b.end)));
                }
            }
            // (iii) followers on the same link
            if a.link == b.link {
                let (lead, foll) = if a.start <= b.start { (a, b) } else { (b, a) };
                // only consecutive passages: no other same-link window starts between them
                let between = w.iter().any(|c| c.link == a.link && c.train != lead.train && c.train != foll.train && c.start > lead.start && c.start < foll.start);
                if between {
                    continue;
                }
                *checks += 4;
                if lead.clear_entry.is_finite() && foll.start < lead.clear_entry + foll.spacing - 1e-6 {
                    f.push((format!("entry-headway-violated@advance:{phase}"), format!("link {}: train {} enters at {} but train {} cleared the entry at {} (+{} s headway)", a.link, foll.train, foll.start, lead.train, lead.clear_entry, foll.spacing)));
                }
                // exit headway / order only for trains that really run through the link: a train whose route ends on
                // it leaves the model there (destination = sink) and overtakes nobody
                if lead.terminates || foll.terminates {
                    continue;
                }
                if lead.end.is_finite() && foll.front_exit.is_finite() && foll.front_exit < lead.end + foll.spacing - 1e-6 {
                    f.push((format!("exit-headway-violated@advance:{phase}"), format!("link {}: front of train {} leaves at {} but tail of train {} left at {} (+{} s headway)", a.link, foll.train, foll.front_exit, lead.train, lead.end, foll.spacing)));
                }
                if foll.front_exit < lead.front_exit - 1e-6 {
                    f.push((format!("order-changed-inside-segment@advance:{phase}"), format!("link {}: train {} entered first ({} < {}) but the front of train {} leaves first ({} < {})", a.link, lead.train, lead.start, foll.start, foll.train, foll.front_exit, lead.front_exit)));
                }
                if foll.end < lead.end - 1e-6 {
                    f.push((format!("order-changed-inside-segment@advance:{phase}:tail"), format!("link {}: train {} entered first but the tail of train {} leaves first ({} < {})", a.link, lead.train, foll.train, foll.end, lead.end)));
                }
            }
        }
    }
    // state-based mutual exclusion, independent of the pass times (a head-on authorisation shows in the plan only as
    // an infinite entry time): in a state in which every train stands at its fixed position (after a completed move and
    // at the end) no two different trains may hold OPEN authorities -- tail not yet out -- on a link and on its flip or
    // on a link declared mutually exclusive with it
    if s.phase == 0 || s.phase == 3 {
        let open = |l: usize| -> Vec<usize> { s.auths.get(l).map(|a| a.iter().filter(|x| x.0 != 0 && x.1[5].is_finite()).map(|x| x.0).collect()).unwrap_or_default() };
        for l in 1..links.len().min(s.auths.len()) {
            let here = open(l);
            if here.is_empty() {
                continue;
            }
            let mut others: Vec<(usize, &str)> = vec![(links[l].idx_flip.idx(), "its flip")];
            for k in &links[l].link_idxs_lockout {
                others.push((k.idx(), "locked-out link"));
            }
            for (o, what) in others {
                if o == 0 || o <= l && what == "its flip" {
                    continue;
                }
                *checks += 1;
                for b in open(o) {
                    if let Some(a) = here.iter().find(|a| **a != b) {
                        f.push((format!("authorities-open-on-conflicting-segments@dispatch-state:{phase}"), format!("train {a} holds an open authority on link {l} while train {b} holds one on {what} {o}")));
                    }
                }
            }
        }
    }
    f.sort_by(|a, b| a.0.cmp(&b.0));
    f.dedup_by(|a, b| a.0 == b.0);
    f
}

fn same_f(a: f64, b: f64) -> bool {
    a == b || (a.is_nan() && b.is_nan()) || (a.is_finite() && b.is_finite() && (a - b).abs() <= 1e-6)
}

/// Rewind is the exact inverse of the tentative advances of one outer-loop iteration: between the previous
/// after-move snapshot (every train at its fixed position) and the rewind only the moved train touched the
/// authority table and links_blocked, so right after the rewind both must equal what they were then.
pub fn oracle_rewind(snaps: &[Snap], n_links: usize, checks: &mut u64) -> Fails {
    let mut f: Fails = vec![];
    let empty_auths: Vec<Vec<(usize, [f64; 6])>> = (0..n_links).map(|_| vec![(0usize, [f64::NEG_INFINITY, f64::NEG_INFINITY, f64::NEG_INFINITY, f64::NEG_INFINITY, f64::INFINITY, f64::INFINITY])]).collect();
    let empty_blocked = vec![0usize; n_links];
    let mut base: Option<&Snap> = None;
    for s in snaps {
        if s.phase == 2 {
            let (a0, b0) = match base {
                Some(b) => (&b.auths, &b.links_blocked),
                None => (&empty_auths, &empty_blocked),
            };
            *checks += 2;
            // links_blocked records ONE of the trains holding a link: when two followers stand on it the entry may name
            // either (it is rewritten with the train of the link's last authority), so only the blocked / free status
            // must be restored, and the rewound train may be named only where it was named before
            let bad = (0..n_links).find(|l| (b0[*l] == 0) != (s.links_blocked[*l] == 0) || (s.links_blocked[*l] == s.moved && b0[*l] != s.moved));
            if let Some(l) = bad {
                f.push(("rewind-does-not-restore-links-blocked@rewind".into(), format!("train {} rewound: link {} was blocked by train {} before its tentative advance and is blocked by train {} after the rewind", s.moved, l, b0[l], s.links_blocked[l])));
            }
            let mut bad: Option<String> = None;
            for l in 0..n_links.min(s.auths.len()).min(a0.len()) {
                if a0[l].len() != s.auths[l].len() {
                    bad = Some(format!("link {l}: {} authorities before the tentative advance, {} after the rewind", a0[l].len(), s.auths[l].len()));
                    break;
                }
                for (x, y) in a0[l].iter().zip(s.auths[l].iter()) {
                    if x.0 != y.0 || !(0..6).all(|k| same_f(x.1[k], y.1[k])) {
                        bad = Some(format!("link {l}: authority {:?} before the tentative advance, {:?} after the rewind", x, y));
                        break;
                    }
                }
                if bad.is_some() {
                    break;
                }
            }
            if let Some(b) = bad {
                f.push(("rewind-does-not-restore-authorities@rewind".into(), format!("train {} rewound: {b}", s.moved)));
            }
            // the rewound train itself is back at its fixed node with no timed node past it
            if s.moved >= 1 && s.moved <= s.trains.len() {
                let t = &s.trains[s.moved - 1];
                *checks += 1;
                if t.idx_free != t.idx_fixed {
                    f.push(("rewound-train-not-at-fixed-node@rewind".into(), format!("train {}: free node {} fixed node {}", s.moved, t.idx_free, t.idx_fixed)));
                }
                if t.nodes.iter().skip(t.idx_free).any(|n| n.time.is_finite()) {
                    f.push(("timed-node-beyond-free-node@rewind".into(), format!("train {}: a node at or after the free node {} keeps a pass time", s.moved, t.idx_free)));
                }
            }
        }
        if s.phase == 0 {
            base = Some(s);
        }
    }
    f.sort_by(|a, b| a.0.cmp(&b.0));
    f.dedup_by(|a, b| a.0 == b.0);
    f
}

/// black-box necessary condition on the returned plan alone: front-occupancy intervals of opposing trains
pub fn oracle_c04_blackbox(t: &Topo, plan: &[Vec<LinkIdxTime>], checks: &mut u64) -> Fails {
    let mut f: Fails = vec![];
    let links = &t.net.0;
    let mut iv: Vec<(usize, usize, f64, f64)> = vec![];
    for (ti, p) in plan.iter().enumerate() {
        for k in 0..p.len() {
            let end = if k + 1 < p.len() { p[k + 1].time.value } else { f64::INFINITY };
            iv.push((ti + 1, p[k].link_idx.idx(), p[k].time.value, end));
        }
    }
    for i in 0..iv.len() {
        for j in (i + 1)..iv.len() {
            let (a, b) = (&iv[i], &iv[j]);
            if a.0 != b.0 && links[a.1].idx_flip.idx() == b.1 && b.1 != 0 && a.3.is_finite() && b.3.is_finite() {
                *checks += 1;
                if !(a.3 <= b.2 + 1e-6 || b.3 <= a.2 + 1e-6) {
                    f.push(("opposing-fronts-overlap-in-returned-plan@run_dispatch".into(), format!("train {} front on link {} during [{}, {}], train {} front on its flip {} during [{}, {}]", a.0, a.1, a.2, a.3, b.0, b.1, b.2, b.3)));
                }
            }
        }
    }
    f.dedup_by(|a, b| a.0 == b.0);
    f
}

/// per train: did a re-route ever re-label nodes the train had already passed (a node that keeps its pass time gets
/// another estimated-time node, or timed nodes are inserted / removed before the free node)?  The timed prefix of a
/// train's path may only grow (advance) or shrink (rewind) between two snapshots; anything else is such a re-label.
pub fn relabelled_under_train(snaps: &[Snap], n_trains: usize) -> Vec<bool> {
    let mut out = vec![false; n_trains];
    for w in snaps.windows(2) {
        for ti in 0..n_trains.min(w[0].trains.len()).min(w[1].trains.len()) {
            let pa: Vec<(usize, u8, usize)> = w[0].trains[ti].nodes.iter().take_while(|n| n.time.is_finite()).map(|n| (n.link, n.ty, n.est_idx)).collect();
            let pb: Vec<(usize, u8, usize)> = w[1].trains[ti].nodes.iter().take_while(|n| n.time.is_finite()).map(|n| (n.link, n.ty, n.est_idx)).collect();
            let k = pa.len().min(pb.len());
            if pa[..k] != pb[..k] {
                out[ti] = true;
            }
        }
    }
    out
}

pub fn oracle_c05(t: &Topo, sc: &Scenario, nets: &[EstTimeNet], res: &Result<Vec<Vec<LinkIdxTime>>, String>, fin: Option<&Snap>, relabelled: &[bool], checks: &mut u64) -> Fails {
    let mut f: Fails = vec![];
    let links = &t.net.0;
    match res {
        Err(e) => {
            *checks += 1;
            if e.trim().is_empty() {
                f.push(("error-without-message@run_dispatch".into(), "empty".into()));
            } else if !(e.contains("got stuck") && e.contains("Some(")) && !e.contains("unequal") {
                // an error that does not name the trains that could not be routed
                f.push((format!("error-does-not-name-trains@run_dispatch:{}", e.lines().next().unwrap_or("").chars().take(40).collect::<String>().replace(' ', "_")), e.chars().take(300).collect()));
            }
        }
        Ok(plan) => {
            *checks += 1;
            if plan.len() != sc.trains.len() {
                f.push(("train-dropped-silently@run_dispatch".into(), format!("{} paths for {} trains", plan.len(), sc.trains.len())));
                return f;
            }
            for (ti, p) in plan.iter().enumerate() {
                let d = &sc.trains[ti];
                let (orig, dest) = origin_dest_links(t, d.od);
                let mut t_ = |ok: bool, key: &str, what: String| {
                    *checks += 1;
                    if !ok {
                        f.push((key.to_string(), format!("train {}: {what}", ti + 1)));
                    }
                };
                t_(!p.is_empty(), "empty-route@run_dispatch", "empty timed path".into());
                if p.is_empty() {
                    continue;
                }
                t_(orig.contains(&p[0].link_idx.idx()), "route-does-not-start-on-origin@run_dispatch", format!("starts on link {} but origins are {:?}", p[0].link_idx.idx(), orig));
                t_(p[0].time.value >= d.dep as f64 - 1e-9, "route-starts-before-departure@run_dispatch", format!("first arrival {} before departure {}", p[0].time.value, d.dep));
                t_(dest.contains(&p[p.len() - 1].link_idx.idx()), "route-does-not-end-on-destination@run_dispatch", format!("ends on link {} but destinations are {:?}", p[p.len() - 1].link_idx.idx(), dest));
                for k in 1..p.len() {
                    let l = &links[p[k].link_idx.idx()];
                    t_(l.idx_prev.idx() == p[k - 1].link_idx.idx() || l.idx_prev_alt.idx() == p[k - 1].link_idx.idx(), "route-not-contiguous@run_dispatch", format!("link {} does not follow link {}", p[k].link_idx.idx(), p[k - 1].link_idx.idx()));
                    t_(p[k].time.value >= p[k - 1].time.value, "arrival-times-decrease@run_dispatch", format!("{} then {}", p[k - 1].time.value, p[k].time.value));
                    t_(p[k].time.value.is_finite(), "non-finite-arrival-time@run_dispatch", format!("{}", p[k].time.value));
                }
                // never faster than the train's own free-running times between consecutive segments
                if let Some(fs) = fin {
                    let ts = &fs.trains[ti];
                    let est = &nets[ti].val;
                    let arr: Vec<usize> = ts.nodes.iter().enumerate().filter(|(_, n)| n.ty == 0).map(|(i, _)| i).collect();
                    for wv in arr.windows(2) {
                        let mut need = 0.0;
                        for i in wv[0]..wv[1] {
                            let e = &est[ts.nodes[i].est_idx];
                            if e.idx_next as usize == ts.nodes[i + 1].est_idx {
                                need += e.time_to_next.value;
                            }
                        }
                        let got = ts.nodes[wv[1]].time - ts.nodes[wv[0]].time;
                        *checks += 1;
                        if got < need - 1e-6 {
                            let key = if relabelled.get(ti).copied().unwrap_or(false) { "faster-than-free-running@run_dispatch:re-routed-under-train" } else { "faster-than-free-running@run_dispatch" };
                            f.push((key.into(), format!("train {}: {} s between links {} and {} but its own free-running time is {} s", ti + 1, got, ts.nodes[wv[0]].link, ts.nodes[wv[1]].link, need)));
                            break;
                        }
                    }
                    // the returned path is the arrive events of the final disp_path
                    let arrives: Vec<(usize, f64)> = ts.nodes.iter().filter(|n| n.ty == 0).map(|n| (n.link, n.time)).collect();
                    let got: Vec<(usize, f64)> = p.iter().map(|x| (x.link_idx.idx(), x.time.value)).collect();
                    *checks += 1;
                    if arrives != got {
                        f.push(("returned-plan-differs-from-final-dispatch-state@calc_timed_path".into(), format!("train {}: {:?} vs {:?}", ti + 1, got, arrives)));
                    }
                }
            }
        }
    }
    f.sort_by(|a, b| a.0.cmp(&b.0));
    f.dedup_by(|a, b| a.0 == b.0);
    f
}

pub struct Exec {
    pub result: Result<Vec<Vec<LinkIdxTime>>, String>,
    pub panicked: Option<String>,
    pub snaps: Vec<Snap>,
    pub nets: Vec<EstTimeNet>,
    pub est_err: Option<String>,
}

pub fn execute(ti: usize, t: &Topo, sc: &Scenario, cache: &mut EstCache) -> Exec {
    let mut nets = vec![];
    let mut sims = vec![];
    for (k, d) in sc.trains.iter().enumerate() {
        match cache.get(ti, t, d) {
            Ok(n) => nets.push(n),
            Err(e) => return Exec { result: Err(String::new()), panicked: None, snaps: vec![], nets: vec![], est_err: Some(e) },
        }
        match make_sim(t, d, k + 1) {
            Ok(s) => sims.push(s),
            Err(e) => return Exec { result: Err(String::new()), panicked: None, snaps: vec![], nets: vec![], est_err: Some(e) },
        }
    }
    let snaps: Rc<RefCell<Vec<Snap>>> = Rc::new(RefCell::new(vec![]));
    let s2 = snaps.clone();
    set_dispatch_observer(Some(Box::new(move |v: &DispatchView| {
        s2.borrow_mut().push(take_snap(v));
    })));
    let nets_in = nets.clone();
    let r = guarded(|| run_dispatch(&t.net.0, &sims, nets_in, false, false));
    set_dispatch_observer(None);
    let snaps = snaps.borrow().clone();
    match r {
        Ok(Ok(p)) => Exec { result: Ok(p), panicked: None, snaps, nets, est_err: None },
        Ok(Err(e)) => Exec { result: Err(format!("{e:#}")), panicked: None, snaps, nets, est_err: None },
        Err(p) => Exec { result: Err(String::new()), panicked: Some(p), snaps, nets, est_err: None },
    }
}

/// event classes derived from consecutive snapshots
pub fn events(ex: &Exec) -> Vec<&'static str> {
    let mut ev: Vec<&'static str> = vec![];
    let mut prev: Option<&Snap> = None;
    for s in &ex.snaps {
        if s.phase == 2 {
            ev.push("rewind");
            // how far was the tentative advance that is undone here: clear events beyond the fixed node
            if let Some(p) = prev {
                if s.moved >= 1 && s.moved <= p.trains.len() {
                    let t = &p.trains[s.moved - 1];
                    let n_clear = t.nodes.iter().take(t.idx_free).skip(t.idx_fixed).filter(|n| n.ty == 1).count();
                    let n_arrive = t.nodes.iter().take(t.idx_free).skip(t.idx_fixed).filter(|n| n.ty == 0).count();
                    // which links does the roll-back hand back (arrive events undone)
                    let mut ls: Vec<usize> = t.nodes.iter().take(t.idx_free).skip(t.idx_fixed).filter(|n| n.ty == 0).map(|n| n.link).collect();
                    ls.sort();
                    ls.dedup();
                    ev.push(Box::leak(format!("rewind-hands-back-links:{:?}", ls).into_boxed_str()));
                    if n_clear >= 2 {
                        ev.push("rewind-across-two-clears");
                    }
                    if n_arrive >= 2 {
                        ev.push("rewind-across-two-arrivals");
                    }
                    if t.idx_fixed > 0 {
                        ev.push("rewind-to-mid-route");
                    }
                }
            }
        }
        if s.phase == 1 && s.moved >= 1 && s.moved <= s.trains.len() && s.trains[s.moved - 1].idx_free > s.trains[s.moved - 1].idx_fixed {
            ev.push("tentative-advance-beyond-fixed");
        }
        if let Some(p) = prev {
            for (a, b) in p.trains.iter().zip(s.trains.iter()) {
                if b.idx_free < a.idx_free {
                    ev.push("free-node-moved-back");
                }
                let pa: Vec<usize> = a.nodes.iter().filter(|n| n.ty == 0).map(|n| n.link).collect();
                let pb: Vec<usize> = b.nodes.iter().filter(|n| n.ty == 0).map(|n| n.link).collect();
                if pa != pb {
                    ev.push("re-route");
                }
                if b.blocked && !a.blocked {
                    ev.push("blocked-behind-train");
                }
                if b.n_div > 2 {
                    ev.push("diverged-from-shortest-path");
                }
            }
        }
        for t in &s.trains {
            if s.phase != 1 && !t.finished && t.idx_free > 0 && t.idx_free < t.nodes.len() {
                ev.push("paused-mid-route");
            }
        }
        prev = Some(s);
    }
    if let Some(l) = ex.snaps.last() {
        let w = windows(l);
        for a in &w {
            for b in &w {
                if a.train != b.train && a.link == b.link {
                    ev.push("followed-on-same-link");
                }
            }
        }
        // waited: any train whose arrival at some link is later than free-running
        for t in &l.trains {
            if t.nodes.windows(2).any(|n| n[1].time.is_finite() && n[0].time.is_finite() && n[1].time - n[0].time > 3600.0) {
                ev.push("waited-over-an-hour");
            }
        }
    }
    if let Err(e) = &ex.result {
        if e.contains("got stuck") {
            ev.push("stuck-error");
        }
    }
    ev.sort();
    ev.dedup();
    ev
}

pub fn scenarios(t: &Topo, tier: Tier) -> Vec<Scenario> {
    let deps: Vec<u32> = vec![0, 60, 300, 900];
    let mut descs: Vec<TrainDesc> = vec![];
    for od in 0..t.ods.len() {
        for &dep in &deps {
            for long in [false, true] {
                descs.push(TrainDesc { od, dep, long });
            }
        }
    }
    let max_n = match tier {
        Tier::Quick => 3,
        Tier::Thorough => {
            if descs.len() <= 16 {
                5
            } else {
                4
            }
        }
    };
    // quick tier: one train length per scenario position beyond the second train to bound the product
    let mut out = vec![];
    let mut cur: Vec<Vec<TrainDesc>> = vec![vec![]];
    for n in 1..=max_n {
        let mut next = vec![];
        for c in &cur {
            for d in &descs {
                if n >= 3 && tier == Tier::Quick && (d.long || (descs.len() > 16 && (d.dep == 60 || d.dep == 900))) {
                    continue;
                }
                if n >= 4 && (d.long || d.dep == 60) {
                    continue;
                }
                // thorough tier, deeper positions: 4th train on large topologies and every 5th train short, departing at 0 or 300 s
                if ((n >= 4 && descs.len() > 16) || n >= 5) && d.dep == 900 {
                    continue;
                }
                // ... and on the largest descriptor sets (more than 16) the third train is short as well
                if n >= 3 && descs.len() > 16 && tier == Tier::Thorough && max_n >= 4 && d.long {
                    continue;
                }
                let mut x = c.clone();
                x.push(*d);
                next.push(x);
            }
        }
        for x in &next {
            out.push(Scenario { topo: t.name.clone(), trains: x.clone() });
        }
        cur = next;
    }
    out
}

pub struct DispatchProp {
    pub which: &'static str,
}

/// input class of a scenario: does a train originate or terminate on a link that is not the end of the line
/// (its origin link has a predecessor / its destination link has a successor)?  The dispatcher treats origins as
/// sources and destinations as sinks; on such links other trains run through the place where a train appears or
/// vanishes.
pub fn scenario_class(t: &Topo, sc: &Scenario) -> &'static str {
    let links = &t.net.0;
    for d in &sc.trains {
        let (orig, dest) = origin_dest_links(t, d.od);
        if orig.iter().any(|l| links[*l].idx_prev.idx() != 0) || dest.iter().any(|l| links[*l].idx_next.idx() != 0) {
            return "mid-link-terminal";
        }
    }
    "end-of-line-terminals"
}

fn normalise_digits(s: &str) -> String {
    let mut out = String::new();
    let mut last_hash = false;
    for c in s.chars() {
        if c.is_ascii_digit() {
            if !last_hash {
                out.push('#');
            }
            last_hash = true;
        } else {
            out.push(c);
            last_hash = false;
        }
    }
    out
}

fn judge(which: &str, t: &Topo, sc: &Scenario, ex: &Exec, checks: &mut u64) -> Fails {
    let mut f = judge_inner(which, t, sc, ex, checks);
    let class = scenario_class(t, sc);
    for x in f.iter_mut() {
        x.0 = format!("{}:{}", x.0, class);
    }
    f
}

fn judge_inner(which: &str, t: &Topo, sc: &Scenario, ex: &Exec, checks: &mut u64) -> Fails {
    let mut f: Fails = vec![];
    if ex.est_err.is_some() {
        // a train or its estimated-time network could not be built: outside the premise (inputs accepted by
        // estimated-time construction); run_dispatch was not called
        return f;
    }
    if which == "C04" {
        for s in &ex.snaps {
            f.extend(oracle_c04(t, s, checks));
        }
        f.extend(oracle_rewind(&ex.snaps, t.net.0.len(), checks));
        if let Ok(p) = &ex.result {
            f.extend(oracle_c04_blackbox(t, p, checks));
        }
    } else {
        if let Some(p) = &ex.panicked {
            let class: String = normalise_digits(&p.chars().take(50).collect::<String>().replace(' ', "_"));
            f.push((format!("panic@run_dispatch:{class}"), format!("panic instead of a plan or an error: {}", p.chars().take(300).collect::<String>())));
        } else {
            let fin = ex.snaps.iter().rev().find(|s| s.fin);
            let rel = relabelled_under_train(&ex.snaps, sc.trains.len());
            f.extend(oracle_c05(t, sc, &ex.nets, &ex.result, fin, &rel, checks));
            if ex.result.is_ok() && fin.is_none() {
                f.push(("final-snapshot-missing@hook".into(), "observer did not see the final state".into()));
            }
        }
    }
    f.sort_by(|a, b| a.0.cmp(&b.0));
    f.dedup_by(|a, b| a.0 == b.0);
    f
}

impl Prop for DispatchProp {
    fn id(&self) -> &'static str {
        self.which
    }
    fn rule(&self, tier: Tier) -> String {
        format!("E-SHAPE over dispatch scenarios: topologies {{plain line, single passing siding, two-track terminals (two origin / destination segments), two sidings, a corridor with an intermediate terminal (trains with different destinations following each other), Y junction with three terminals, diamond crossing with symmetric lockout declarations, double track with a crossover link between single-track terminals (opposing trains re-routed onto the parallel track; a held follower standing on the terminal link is rewound), two-track terminals joined by double track with a crossover, two double-track sections joined by a single-track bridge, full double track with a scissors crossover between two-track terminals}}{} (10 km terminal links, every link with its flip) x EVERY ordered sequence of n <= {} trains, each train = (origin/destination pair incl. both directions) x departure in {{0, 60, 300, 900}} s (all relative orders and ties) x length in {{360 m, 1080 m}} (later positions restricted as stated in DESIGN); estimated-time networks are the real make_est_times outputs. One real run_dispatch per scenario; hook H1 exposes the dispatch state after every tentative advance inside the inner loop, after every rewind, after every completed train move and at the end (states = snapshots, transitions = advances). Oracle {} on every snapshot (tentative ones included) and on the returned plan; for C04 additionally: right after a rewind the authority table equals what it was at the previous completed move and links_blocked marks the same links as blocked (never naming the rewound train where it was not named before), the rewound train is at its fixed node and keeps no pass time beyond it. distinct_nontrivial = distinct (topology, outcome, set of events: paused mid-route / blocked behind a train / followed on a link / tentative advance / rewind / re-route / diverged / free node moved back / waited / stuck-error) signatures.", if tier.is_thorough() { " x middle-link length in {0.5, 3, 20 km}" } else { " (middle links 3 km)" }, if tier.is_thorough() { "5 (4 on topologies with more than 16 train descriptors; 4th train short and not departing at 60 s, 5th train -- and the 4th on the large topologies -- short and departing at 0 or 300 s, 3rd train short on the large topologies)" } else { "3 (third train short; on topologies with more than 16 train descriptors its departure is 0 or 300 s)" }, self.which)
    }
    fn assumptions(&self) -> Vec<String> {
        vec![
            "occupancy windows are recomputed from each train's disp_path (front enters at Arrive(L); tail leaves at the Clear event of the next link), not from DispAuth fields".into(),
            "headway = the TrainDisp's own time_spacing (8 min as configured by run_dispatch)".into(),
            "scenario family bounded as stated; est-time networks cached per (topology, O/D, departure, length)".into(),
        ]
    }
    fn wall_cap_s(&self, tier: Tier) -> u64 {
        match tier {
            Tier::Quick => 150,
            Tier::Thorough => 3000,
        }
    }
    fn explore(&self, ctx: &mut Ctx) {
        let topos = topologies(ctx.tier.is_thorough());
        let mut cache = EstCache::default();
        for (ti, t) in topos.iter().enumerate() {
            if t.net.validate().is_err() {
                ctx.machinery_error(format!("generated topology {} does not pass network validation", t.name));
                continue;
            }
            let scs = scenarios(t, ctx.tier);
            // case granularity: blocks of 64 scenarios
            for block in scs.chunks(64) {
                if !ctx.claim() {
                    continue;
                }
                for sc in block {
                    ctx.describe(&serde_json::to_value(sc).unwrap());
                    let ex = execute(ti, t, sc, &mut cache);
                    ctx.evaluation();
                    if let Some(e) = &ex.est_err {
                        ctx.count("est-times-unavailable");
                        ctx.sig(&format!("{}:est-err", t.name));
                        if self.which == "C05" && e.starts_with("PANIC") {
                            // est-time construction did not accept the input: outside C05's premise, counted only
                            ctx.count("est-times-panicked");
                        }
                        continue;
                    }
                    ctx.stats.states += ex.snaps.len() as u64;
                    ctx.stats.transitions += ex.snaps.iter().filter(|s| s.phase == 0 || s.phase == 1).count() as u64;
                    let mut checks = 0;
                    let fails = judge(self.which, t, sc, &ex, &mut checks);
                    ctx.checks(checks);
                    let outcome = if ex.panicked.is_some() {
                        "panic"
                    } else if ex.result.is_ok() {
                        "ok"
                    } else {
                        "err"
                    };
                    ctx.count(&format!("outcome:{outcome}"));
                    let ev = events(&ex);
                    for e in &ev {
                        ctx.count(&format!("event:{e}"));
                    }
                    ctx.sig(&format!("{}:{}:{}", t.name, outcome, ev.join("+")));
                    ctx.sample(|| serde_json::json!({"scenario": sc, "moves_observed": ex.snaps.len(), "events": ev}));
                    let size = sc.trains.len() as u64;
                    for (k, w) in fails {
                        if ctx.wants_violation(&k, size) {
                            ctx.violation(&k, w, serde_json::to_value(sc).unwrap(), size);
                        } else {
                            ctx.count_violation_only(&k);
                        }
                    }
                }
                if ctx.out_of_time() {
                    break;
                }
            }
        }
        ctx.count_n("est-nets-built", cache.built);
        ctx.finish();
    }
    fn replay(&self, case: &Value) -> ReplayOutcome {
        let sc: Scenario = match serde_json::from_value(case.clone()) {
            Ok(c) => c,
            Err(e) => return ReplayOutcome { violations: vec![("bad-replay-file".into(), e.to_string())], observation: String::new() },
        };
        let topos = topologies(true);
        let Some((ti, t)) = topos.iter().enumerate().find(|(_, t)| t.name == sc.topo) else {
            return ReplayOutcome { violations: vec![("bad-replay-file".into(), "unknown topology".into())], observation: String::new() };
        };
        let mut cache = EstCache::default();
        let ex = execute(ti, t, &sc, &mut cache);
        let mut checks = 0;
        let v = judge(self.which, t, &sc, &ex, &mut checks);
        let trace: Vec<String> = ex.snaps.iter().map(|s| format!("{}{}:{}", ["M", "a", "R", "F"][s.phase as usize], s.moved, s.trains.iter().map(|t| format!("{}/{}/{}{}", t.idx_fixed, t.idx_free, t.nodes.len(), if t.blocked { "b" } else { "" })).collect::<Vec<_>>().join(","))).collect();
        if std::env::var("MC_LOUD").is_ok() {
            for s in &ex.snaps {
                eprintln!("--- {}{}", ["M", "a", "R", "F"][s.phase as usize], s.moved);
                for (i, t) in s.trains.iter().enumerate() {
                    eprintln!("  train {} fixed={} free={} front={} back={} blocked={} nodes={}", i + 1, t.idx_fixed, t.idx_free, t.idx_front, t.idx_back, t.blocked, t.nodes.iter().map(|n| format!("{}{}@{:.0}", ["A", "C", "f"][n.ty as usize], n.link, n.time)).collect::<Vec<_>>().join(" "));
                }
                eprintln!("  links_blocked={:?}", s.links_blocked);
            }
        }
        let obs = format!("result={:?} snaps={} events={:?} trace={:?}", ex.result.as_ref().map(|p| p.iter().map(|x| x.iter().map(|l| (l.link_idx.idx(), l.time.value)).collect::<Vec<_>>()).collect::<Vec<_>>()), ex.snaps.len(), events(&ex), trace);
        ReplayOutcome { violations: v, observation: obs }
    }
}
