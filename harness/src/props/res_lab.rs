//! ResLab (C09): E-SEQ on a stand-alone `ReversibleEnergyStorage` driven through its public API
//! (`set_cur_pwr_out_max(aux, charge_buffer, discharge_buffer)` -> `solve_energy_consumption` -> `step`) with every
//! combination of the two optional energy BUFFERS -- the locomotive models always pass `None, None`, so the
//! buffer arithmetic is reachable only here ("all ratings / ramp lags / SOC windows / buffers").
use crate::domain::pt::*;
use crate::engine::seq::dfs;
use crate::engine::{guarded, Ctx, ReplayOutcome, Tier};
use altrios_core::consist::locomotive::powertrain::reversible_energy_storage::ReversibleEnergyStorage;
use altrios_core::uc;
use serde::{Deserialize, Serialize};
use serde_json::Value;

/// buffer as a fraction of the energy capacity
pub const BUFS: [Option<f64>; 4] = [None, Some(0.0), Some(0.01), Some(0.05)];
pub const AUXS: [f64; 2] = [0.0, 8550.0];
pub const RDTS: [f64; 2] = [1.0, 4.0];
/// demand letters relative to the propulsion limits just published: M = pwr_prop_out_max, R = pwr_regen_out_max
pub const RDEMANDS: [&str; 11] = ["-0.6R", "0", "0.5M", "M-", "M", "M+tol", "1.2M", "-R-", "-R", "-R+tol", "-1.2R"];
const TOL: f64 = 1e-3;

#[derive(Debug, Clone, Copy, PartialEq, Serialize, Deserialize)]
pub struct RLetter {
    pub demand: usize,
    pub dt: usize,
}
#[derive(Debug, Clone, Serialize, Deserialize)]
pub struct ResCase {
    /// marker for replay dispatch
    pub res_lab: bool,
    pub cfg: ResCfg,
    pub charge_buffer: usize,
    pub discharge_buffer: usize,
    pub aux: usize,
    pub path: Vec<RLetter>,
}

#[derive(Debug, Clone)]
pub struct RInfo {
    pub dt: f64,
    pub demand: f64,
    pub aux: f64,
    pub m: f64,
    pub r: f64,
    pub disch: f64,
    pub charge: f64,
    pub soc_before: f64,
    pub accepted: bool,
    pub panicked: bool,
    pub err: String,
}

fn demand_value(d: usize, m: f64, r: f64) -> f64 {
    match RDEMANDS[d] {
        "0" => 0.0,
        "0.5M" => 0.5 * m,
        "M-" => m * (1.0 - 1e-9),
        "M" => m,
        "M+tol" => m + 2.0 * TOL * m.abs().max(1.0e6),
        "1.2M" => 1.2 * m.max(1.0e5),
        "-0.6R" => -0.6 * r,
        "-R-" => -r * (1.0 - 1e-9),
        "-R" => -r,
        "-R+tol" => -(r + 2.0 * TOL * r.abs().max(1.0e6)),
        _ => -1.2 * r.max(1.0e5),
    }
}

pub fn step_res(res: &mut ReversibleEnergyStorage, c: &ResCase, l: RLetter) -> RInfo {
    let dt = RDTS[l.dt];
    let aux = AUXS[c.aux];
    let cap = res.energy_capacity.value;
    let buf = |b: usize| BUFS[b].map(|f| f * cap * uc::J);
    let mut info = RInfo { dt, demand: 0.0, aux, m: 0.0, r: 0.0, disch: 0.0, charge: 0.0, soc_before: res.state.soc.value, accepted: false, panicked: false, err: String::new() };
    let r = guarded(|| -> Result<(), String> {
        res.set_cur_pwr_out_max(aux * uc::W, buf(c.charge_buffer), buf(c.discharge_buffer)).map_err(|e| format!("{e:#}"))?;
        info.m = res.state.pwr_prop_out_max.value;
        info.r = res.state.pwr_regen_out_max.value;
        info.disch = res.state.pwr_disch_max.value;
        info.charge = res.state.pwr_charge_max.value;
        info.demand = demand_value(l.demand, info.m, info.r);
        res.solve_energy_consumption(info.demand * uc::W, aux * uc::W, dt * uc::S).map_err(|e| format!("{e:#}"))?;
        res.step();
        Ok(())
    });
    match r {
        Ok(Ok(())) => info.accepted = true,
        Ok(Err(e)) => info.err = e,
        Err(p) => {
            info.panicked = true;
            info.err = p;
        }
    }
    info
}

pub type Fails = Vec<(String, String)>;

/// oracle on an accepted step (and on the limits published for it)
pub fn oracle(c: &ResCase, res: &ReversibleEnergyStorage, info: &RInfo, checks: &mut u64) -> Fails {
    let mut f: Fails = vec![];
    let (mn, _lo, _hi, mx) = res_window(&c.cfg);
    let rating = res.pwr_out_max.value;
    let band = 1e-9 * rating;
    let ctxt = format!("(soc {} -> {}, demand {} W, aux {} W, dt {}, published disch {} charge {}, buffers charge {:?} discharge {:?} of capacity, window [{mn}, {mx}])", info.soc_before, res.state.soc.value, info.demand, info.aux, info.dt, info.disch, info.charge, BUFS[c.charge_buffer], BUFS[c.discharge_buffer]);
    let mut t = |ok: bool, key: &str, what: String| {
        *checks += 1;
        if !ok {
            f.push((format!("{key}:res-buffers"), format!("{what} {ctxt}")));
        }
    };
    let elec = res.state.pwr_out_electrical.value;
    // published limits: never negative, never above the rating
    t(info.disch >= -band && info.disch <= rating * (1.0 + 1e-9), "published-discharge-limit-outside-[0,rating]@ReversibleEnergyStorage::set_cur_pwr_out_max", format!("pwr_disch_max {}", info.disch));
    t(info.charge >= -band && info.charge <= rating * (1.0 + 1e-9), "published-charge-limit-outside-[0,rating]@ReversibleEnergyStorage::set_cur_pwr_out_max", format!("pwr_charge_max {}", info.charge));
    // a reserved band is never offered: no charging at / above (max_soc - discharge buffer), no discharging at / below
    // (min_soc + charge buffer)
    let cap = res.energy_capacity.value;
    let _ = cap;
    let top = (mx - BUFS[c.discharge_buffer].unwrap_or(0.0)).max(mn);
    let bottom = (mn + BUFS[c.charge_buffer].unwrap_or(0.0)).min(mx);
    if info.soc_before >= top - 1e-12 {
        t(info.charge <= band, "charge-offered-at-top-of-window@ReversibleEnergyStorage::set_cur_pwr_out_max", format!("pwr_charge_max {} with the state of charge at / above max_soc minus the discharge buffer ({top})", info.charge));
    }
    if info.soc_before <= bottom + 1e-12 {
        t(info.disch <= band, "discharge-offered-at-bottom-of-window@ReversibleEnergyStorage::set_cur_pwr_out_max", format!("pwr_disch_max {} with the state of charge at / below min_soc plus the charge buffer ({bottom})", info.disch));
    }
    // the accepted power is within the rating and within the limits published for the step (code's TOL)
    t(elec.abs() <= rating * (1.0 + TOL) + band, "battery-beyond-rating@ReversibleEnergyStorage::solve_energy_consumption", format!("electrical power {elec} W, rating {rating}"));
    if elec >= 0.0 {
        t(elec <= info.disch + TOL * info.disch.abs().max(1.0) + band, "battery-beyond-published-discharge-limit@ReversibleEnergyStorage::solve_energy_consumption", format!("discharging {elec} W"));
    } else {
        t(-elec <= info.charge + TOL * info.charge.abs().max(1.0) + band, "battery-beyond-published-charge-limit@ReversibleEnergyStorage::solve_energy_consumption", format!("charging {} W", -elec));
    }
    // the state of charge stays inside the configured window (one step can overshoot a bound by at most TOL x the
    // power of one step)
    let slack = TOL * rating * info.dt / res.energy_capacity.value + 1e-12;
    let soc = res.state.soc.value;
    t(soc <= mx + slack && soc >= mn - slack, "soc-outside-configured-window@ReversibleEnergyStorage::solve_energy_consumption", format!("state of charge {soc}"));
    f
}

pub fn run_case(c: &ResCase) -> (ReversibleEnergyStorage, Vec<(RInfo, ReversibleEnergyStorage)>) {
    let mut res = build_res(&c.cfg);
    let mut out = vec![];
    for l in &c.path {
        let info = step_res(&mut res, c, *l);
        let acc = info.accepted;
        out.push((info, res.clone()));
        if !acc {
            break;
        }
    }
    (res, out)
}

pub fn rule(tier: Tier) -> String {
    let (d, l) = bounds(tier);
    format!(
        "stand-alone ReversibleEnergyStorage through its public API with energy buffers: packs {{small flat-0.90, small corner map}} x windows {{(.05,.95), (.2,.8)}} x initial SOC {{min, mid-ramp-lo, ramp-lo, 0.5, ramp-hi, mid-ramp-hi, max}} x charge buffer x discharge buffer in {:?} of capacity x aux {:?} W; letters {:?} (relative to the limits just published) x dt {:?}; FULL({d}) + DEV({l},1)",
        BUFS, AUXS, RDEMANDS, RDTS
    )
}
fn bounds(tier: Tier) -> (usize, usize) {
    if tier.is_thorough() {
        (4, 60)
    } else {
        (3, 24)
    }
}

pub fn explore(ctx: &mut Ctx) {
    let (full_d, dev_l) = bounds(ctx.tier);
    let mut letters: Vec<RLetter> = vec![];
    for dt in 0..RDTS.len() {
        for d in 0..RDEMANDS.len() {
            letters.push(RLetter { demand: d, dt });
        }
    }
    for map in [1u8, 2] {
        for window in [0u8, 1] {
            for soc in 0..7u8 {
                for cb in 0..BUFS.len() {
                    for db in 0..BUFS.len() {
                        for aux in 0..AUXS.len() {
                            if !ctx.tier.is_thorough() && (map == 2 && window == 1 || aux == 1 && cb == 1) {
                                continue;
                            }
                            if !ctx.claim() {
                                continue;
                            }
                            let base = ResCase { res_lab: true, cfg: ResCfg { map, window, soc, temp: 1 }, charge_buffer: cb, discharge_buffer: db, aux, path: vec![] };
                            let root = build_res(&base.cfg);
                            ctx.state();
                            ctx.sample(|| serde_json::to_value(&base).unwrap());
                            for first in 0..letters.len() {
                                for (mode_len, mode_dev) in [(full_d, None), (dev_l, Some(1usize))] {
                                    let mut path: Vec<usize> = vec![first];
                                    let mut step = |parent: &ReversibleEnergyStorage, a: usize, path: &[usize]| -> Option<ReversibleEnergyStorage> {
                                        let mut res = parent.clone();
                                        let info = step_res(&mut res, &base, letters[a]);
                                        ctx.transition();
                                        ctx.depth(path.len() as u64);
                                        let mk = |path: &[usize]| ResCase { path: path.iter().map(|&i| letters[i]).collect(), ..base.clone() };
                                        if info.panicked {
                                            let key = "panic@res-step:res-buffers";
                                            if ctx.wants_violation(key, path.len() as u64) {
                                                ctx.violation(key, info.err.chars().take(300).collect(), serde_json::to_value(mk(path)).unwrap(), path.len() as u64);
                                            } else {
                                                ctx.count_violation_only(key);
                                            }
                                            return None;
                                        }
                                        if !info.accepted {
                                            ctx.stats.rejected += 1;
                                            ctx.sig(&format!("res-rejected:{}:{}", RDEMANDS[letters[a].demand], info.err.lines().last().unwrap_or("").chars().take(40).collect::<String>()));
                                            return None;
                                        }
                                        let mut checks = 0u64;
                                        let fails = oracle(&base, &res, &info, &mut checks);
                                        ctx.checks(checks);
                                        ctx.state();
                                        ctx.sig(&format!("res:{}:cb{}:db{}:{}:{}", soc, cb, db, RDEMANDS[letters[a].demand], if info.charge <= 0.0 { "no-charge" } else if info.disch <= 0.0 { "no-disch" } else { "both" }));
                                        for (k, w) in fails {
                                            if ctx.wants_violation(&k, path.len() as u64) {
                                                ctx.violation(&k, w, serde_json::to_value(mk(path)).unwrap(), path.len() as u64);
                                            } else {
                                                ctx.count_violation_only(&k);
                                            }
                                        }
                                        Some(res)
                                    };
                                    if let Some(child) = step(&root, first, &path.clone()) {
                                        dfs(&child, mode_len, mode_dev, letters.len(), &mut path, &mut step);
                                    }
                                }
                            }
                            if ctx.out_of_time() {
                                return;
                            }
                        }
                    }
                }
            }
        }
    }
}

pub fn replay(case: &Value) -> ReplayOutcome {
    let c: ResCase = match serde_json::from_value(case.clone()) {
        Ok(c) => c,
        Err(e) => return ReplayOutcome { violations: vec![("bad-replay-file".into(), e.to_string())], observation: String::new() },
    };
    let (res, steps) = run_case(&c);
    let mut v = vec![];
    let mut checks = 0;
    for (info, r) in &steps {
        if info.panicked {
            v.push(("panic@res-step:res-buffers".to_string(), info.err.clone()));
        } else if info.accepted {
            v.extend(oracle(&c, r, info, &mut checks));
        }
    }
    ReplayOutcome { violations: v, observation: format!("demands={:?} accepted={:?} soc={}", steps.iter().map(|x| x.0.demand).collect::<Vec<_>>(), steps.iter().map(|x| x.0.accepted).collect::<Vec<_>>(), res.state.soc.value) }
}
