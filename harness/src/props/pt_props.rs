//! C01 / C08 / C09 on single locomotives and consists: E-SEQ over demand letters.
use super::ptlab::*;
use crate::domain::pt::*;
use crate::engine::seq::dfs;
use crate::engine::{Ctx, Prop, ReplayOutcome, Tier};
use altrios_core::consist::locomotive::Locomotive;
use serde_json::Value;

pub struct PtProp {
    pub which: &'static str,
}

#[derive(Clone)]
struct Node {
    loco: Locomotive,
    snap: Snap,
}

fn letters_for(which: &str) -> Vec<Letter> {
    let mut v = vec![];
    // index 0 must be the default action: 0.6M, dt=1, engine on
    // engine command letters: C08 (engine-off clause) and C09 (an engine commanded off must not slip past the limit checks)
    let engines: Vec<usize> = if which == "C08" || which == "C09" { vec![0, 1, 2] } else { vec![0] };
    for &e in &engines {
        let ndt = if which == "C01" { DTS.len() } else { 3 };
        for dt in 0..ndt {
            for d in 0..DEMANDS.len() {
                if (which == "C08" || which == "C09") && e != 0 && dt != 0 {
                    continue; // engine command x dt: cover on the default dt only
                }
                v.push(Letter { demand: d, dt, engine: e });
            }
        }
    }
    v
}

fn oracle(which: &str, p: &Snap, s: &Snap, info: &StepInfo, checks: &mut u64) -> Fails {
    match which {
        "C01" => oracle_c01(p, s, info, checks),
        "C08" => oracle_c08(p, s, info, checks),
        _ => oracle_c09(p, s, info, checks),
    }
}

fn signature(s: &Snap, info: &StepInfo) -> String {
    let dir = if info.demand > 0.0 {
        "trac"
    } else if info.demand < 0.0 {
        if s.ed_dyn > 0.0 && s.ed_mech_out < 0.0 {
            "regen+dyn"
        } else if s.ed_dyn > 0.0 {
            "dyn"
        } else {
            "regen"
        }
    } else {
        "zero"
    };
    let bound = if s.is_conv {
        if s.fc_out_max >= s.fc_rating {
            "rating"
        } else if s.fc_out_max <= s.fc_init.max(s.fc_rating / 10.0) {
            "floor"
        } else {
            "ramp"
        }
    } else if s.res_disch_max < s.res_rating {
        "soc-lo-derate"
    } else if s.res_charge_max < s.res_rating {
        "soc-hi-derate"
    } else {
        "soc-free"
    };
    let lim = if info.m >= s.ed_rating { "edrv-binds" } else { "upstream-binds" };
    format!("{}:{}:{}:{}:eng={:?}:dt={}", if s.is_hyb { "hyb" } else if s.is_conv { "conv" } else { "bel" }, dir, bound, lim, info.engine_on, info.dt)
}

impl PtProp {
    fn bounds(&self, tier: Tier) -> (usize, usize, usize) {
        // (FULL depth, DEV(L,1) length on every configuration, DEV(L,2) length on the star-design configurations)
        match tier {
            Tier::Quick => (2, 30, 8),
            Tier::Thorough => (3, 60, 24),
        }
    }

    fn explore_cfg(&self, ctx: &mut Ctx, cfg: &LocoCfg, letters: &[Letter], first: usize, full_d: usize, dev: (usize, usize), star: bool, no_assert: bool) {
        let which = self.which;
        let root_loco = build_case_loco(cfg, no_assert);
        let root = Node { snap: snap(&root_loco), loco: root_loco };
        ctx.state();
        let mut leaf_count = 0u64;
        let mut modes = vec![(full_d, None), (dev.0, Some(1usize))];
        if star {
            modes.push((dev.1, Some(2usize)));
        }
        for (mode_len, mode_dev) in modes {
            let mut path: Vec<usize> = vec![];
            // the case fixes the first action; explore below it
            let mut step = |parent: &Node, a: usize, path: &[usize]| -> Option<Node> {
                let l = letters[a];
                // skip letters whose demand duplicates an earlier letter at this parent (e.g. R = 0)
                let mut loco = parent.loco.clone();
                let info = step_loco(&mut loco, Ok(l.demand), DTS[l.dt], ENGINE[l.engine]);
                ctx.transition();
                ctx.depth(path.len() as u64);
                if info.panicked {
                    let case = LocoCase { cfg: *cfg, path: path.iter().map(|&i| letters[i]).collect(), no_assert };
                    ctx.violation(&format!("panic@step:{}", if parent.snap.is_hyb { "hyb" } else if parent.snap.is_conv { "conv" } else { "bel" }), format!("panic: {}", info.err), serde_json::to_value(&case).unwrap(), path.len() as u64);
                    return None;
                }
                if !info.accepted {
                    ctx.stats.rejected += 1;
                    let e = info.err.lines().last().unwrap_or("").chars().take(60).collect::<String>();
                    ctx.sig(&format!("rejected:{}:{}", DEMANDS[l.demand], e));
                    // C09: over-limit letters must be rejected -> nothing to do; an accepted one is caught by the oracle
                    return None;
                }
                let s = snap(&loco);
                let mut checks = 0u64;
                let fails = oracle(which, &parent.snap, &s, &info, &mut checks);
                ctx.checks(checks);
                ctx.state();
                ctx.sig(&signature(&s, &info));
                if !fails.is_empty() && fails.iter().all(|(k, _)| !ctx.wants_violation(k, path.len() as u64)) {
                    for (k, _) in &fails {
                        ctx.count_violation_only(k);
                    }
                } else if !fails.is_empty() {
                    let case = LocoCase { cfg: *cfg, path: path.iter().map(|&i| letters[i]).collect(), no_assert };
                    let cv = serde_json::to_value(&case).unwrap();
                    for (k, w) in fails {
                        if ctx.wants_violation(&k, path.len() as u64) {
                            ctx.violation(&k, w, cv.clone(), path.len() as u64);
                        } else {
                            ctx.count_violation_only(&k);
                        }
                    }
                }
                // binding to the real loop on every 64th accepted leaf-ish node
                leaf_count += 1;
                if leaf_count % 257 == 0 {
                    let case = LocoCase { cfg: *cfg, path: path.iter().map(|&i| letters[i]).collect(), no_assert };
                    let (fl, steps) = run_case(&case);
                    if steps.iter().all(|x| x.0.accepted) {
                        match validate_against_walk(&case, &fl, &steps) {
                            Ok(()) => {
                                if fl == loco {
                                    ctx.validated()
                                } else {
                                    ctx.machinery_error(format!("straight-line replay differs from explored node for {:?}", case))
                                }
                            }
                            Err(e) => ctx.machinery_error(format!("{e} for {:?}", case)),
                        }
                    }
                }
                Some(Node { loco, snap: s })
            };
            path.push(first);
            if let Some(child) = step(&root, first, &path) {
                dfs(&child, mode_len, mode_dev, letters.len(), &mut path, &mut step);
            }
        }
    }
}

impl Prop for PtProp {
    fn id(&self) -> &'static str {
        self.which
    }
    fn rule(&self, tier: Tier) -> String {
        let (d, l, k) = self.bounds(tier);
        let mut consist_part = if self.which == "C01" || self.which == "C09" { format!(" PLUS consists: {}", super::consist_lab::rule(self.which, tier)) } else { String::new() };
        if self.which == "C09" {
            consist_part.push_str(&format!(" PLUS {}", super::res_lab::rule(tier)));
        }
        format!(
            "E-SEQ on real Locomotive objects driven like LocomotiveSimulation::solve_step: alphabet = {} letters (14 demands relative to the limits just published: {:?}; dt in {:?} (20 s for C01 only){}), every sequence of length <= {} (FULL), every sequence of length {} departing from the default letter (0.6M, dt=1, engine on) in <= 1 position (DEV(L,1)) on every powertrain configuration of the {} PT family (conventional + battery-electric; C08 also hybrid units), and every sequence of length {} with <= 2 departures (DEV(L,2)) on the star-design configurations; C01 and C08 repeat FULL and DEV(L,1) on the star-design configurations with the public option assert_limits = false. Oracle on every accepted step (= every prefix of every history). distinct_nontrivial = number of distinct behaviour signatures (unit type x traction/regen/dyn-brake/zero x which transient bound is active x which limit binds x engine command x dt, and rejected-letter x error kind).{}",
            letters_for(self.which).len(),
            DEMANDS,
            DTS,
            if self.which == "C08" || self.which == "C09" { "; engine command in {on, None, off}" } else { "" },
            d,
            l,
            if tier.is_thorough() { "full-product" } else { "star-design" },
            k,
            consist_part
        )
    }
    fn assumptions(&self) -> Vec<String> {
        vec![
            "continuous parameters (maps, ratings, SOC) are covered at the PT alphabet points only".into(),
            "an implementation value is compared with a recomputation within |a-b| <= 1e-9*max(|a|,|b|) + 1e-9*rated power (DESIGN 1.6); limits carry the code's own tolerance (TOL=1e-3)".into(),
            "rejected steps (Err) are legal and end the branch; the object is not inspected after an Err".into(),
            "SOC-window claim restricted to dt*P_max/(eta_min*E*ramp width) <= 1 (holds for every generated pack and dt)".into(),
        ]
    }
    fn wall_cap_s(&self, tier: Tier) -> u64 {
        match tier {
            Tier::Quick => 100,
            Tier::Thorough => 2400,
        }
    }
    fn explore(&self, ctx: &mut Ctx) {
        let letters = letters_for(self.which);
        let (full_d, dev_l, dev_k) = self.bounds(ctx.tier);
        let mut cfgs = conv_configs(ctx.tier.is_thorough());
        cfgs.extend(bel_configs(ctx.tier.is_thorough()));
        let mut star_cfgs = conv_configs(false);
        star_cfgs.extend(bel_configs(false));
        if self.which == "C08" {
            // "every simulation ... each component": the shipped hybrid type as well
            cfgs.extend(hyb_configs(ctx.tier.is_thorough()));
        }
        // the star-design configurations are always part of the run
        for c in &star_cfgs {
            if !cfgs.contains(c) {
                cfgs.push(*c);
            }
        }
        for cfg in &cfgs {
            let star = star_cfgs.contains(cfg);
            for first in 0..letters.len() {
                if !ctx.claim() {
                    continue;
                }
                if first == 0 {
                    ctx.sample(|| serde_json::json!({"config": cfg, "first_letter": letters[first], "explored": format!("FULL({full_d}), DEV({dev_l},1) and (star configs) DEV({dev_k},2) below it")}));
                }
                self.explore_cfg(ctx, cfg, &letters, first, full_d, (dev_l, dev_k), star, false);
                if ctx.out_of_time() {
                    break;
                }
            }
        }
        // C01: the same exploration with the public option assert_limits = false on the star-design configurations
        if self.which == "C01" || self.which == "C08" {
            for cfg in &star_cfgs {
                for first in 0..letters.len() {
                    if !ctx.claim() {
                        continue;
                    }
                    self.explore_cfg(ctx, cfg, &letters, first, full_d, (dev_l, dev_k), false, true);
                    if ctx.out_of_time() {
                        break;
                    }
                }
            }
        }
        if self.which == "C01" || self.which == "C09" {
            super::consist_lab::explore(ctx, self.which);
        }
        if self.which == "C09" {
            super::res_lab::explore(ctx);
        }
        ctx.finish();
    }
    fn replay(&self, case: &Value) -> ReplayOutcome {
        if case.get("units").is_some() {
            return super::consist_lab::replay(self.which, case);
        }
        if case.get("res_lab").is_some() {
            return super::res_lab::replay(case);
        }
        let c: LocoCase = match serde_json::from_value(case.clone()) {
            Ok(c) => c,
            Err(e) => return ReplayOutcome { violations: vec![("bad-replay-file".into(), e.to_string())], observation: String::new() },
        };
        let (fl, steps) = run_case(&c);
        let mut v = vec![];
        let mut checks = 0;
        for (info, p, s) in &steps {
            if info.panicked {
                v.push((format!("panic@step:{}", if p.is_hyb { "hyb" } else if p.is_conv { "conv" } else { "bel" }), info.err.clone()));
            } else if info.accepted {
                v.extend(oracle(self.which, p, s, info, &mut checks));
            }
        }
        let obs = format!("{:?} | final i={} pwr_out={} accepted={:?}", steps.iter().map(|x| x.0.demand).collect::<Vec<_>>(), fl.state.i, fl.state.pwr_out.value, steps.iter().map(|x| x.0.accepted).collect::<Vec<_>>());
        ReplayOutcome { violations: v, observation: obs }
    }
}

/// C10: consist-only exploration
pub struct C10;
impl Prop for C10 {
    fn id(&self) -> &'static str {
        "C10"
    }
    fn rule(&self, tier: Tier) -> String {
        super::consist_lab::rule("C10", tier)
    }
    fn assumptions(&self) -> Vec<String> {
        vec![
            "stated bound: exhaustive over ordered compositions of <= 3 units from the unit-variant alphabet and all {conv,BEL}^4; 5..8-unit consists are representative only".into(),
            "sum-to-request uses the code's own almost_eq (1e-8); unit limits carry the code's TOL on the upstream component limit".into(),
            "a panic inside a consist step (e.g. RESGreedy's assert) is reported as a violation: it is neither an accepted step nor an error value".into(),
        ]
    }
    fn wall_cap_s(&self, tier: Tier) -> u64 {
        match tier {
            Tier::Quick => 100,
            Tier::Thorough => 2400,
        }
    }
    fn explore(&self, ctx: &mut Ctx) {
        super::consist_lab::explore(ctx, "C10");
        ctx.finish();
    }
    fn replay(&self, case: &Value) -> ReplayOutcome {
        super::consist_lab::replay("C10", case)
    }
}
