//! C18: results are deterministic and independent of thread scheduling.
//! Part 1: every interleaving of the batch-walk contract (shuttle check_dfs for N <= 3, explicit event enumeration
//!         for N = 4, 5; cross-checked) with the REAL `LocomotiveSimulation::walk` as element bodies, bound to the
//!         real rayon `walk(true)` in pools of 1..16 threads.
//! Part 2: every iteration order of the std hash containers that exist today.
//! Part 3: twin-run tripwire (sampled, labelled, not a verdict).

use crate::domain::disp::*;
use crate::domain::net::*;
use crate::domain::train::*;
use crate::engine::{guarded, Ctx, Prop, ReplayOutcome, Tier};
use altrios_core::consist::locomotive::loco_sim::{LocomotiveSimulation, LocomotiveSimulationVec, PowerTrace};
use altrios_core::consist::locomotive::Locomotive;
use altrios_core::meet_pass::dispatch::run_dispatch;
use altrios_core::meet_pass::est_times::make_est_times;
use altrios_core::track::{PathTpc, SpeedSet, TrainType};
use altrios_core::train::{InitTrainState, SpeedTrace};
use altrios_core::uc;
use serde::{Deserialize, Serialize};
use serde_json::Value;
use std::collections::{BTreeSet, HashMap};
use std::sync::{Arc, Mutex};

#[derive(Debug, Clone, Serialize, Deserialize, PartialEq)]
pub enum Case {
    /// batch of element kinds under the scheduler
    Batch { kinds: Vec<u8> },
    /// real rayon walk(true) of a batch in pools of 1..16 threads + walk(false)
    Rayon { kinds: Vec<u8> },
    /// iteration orders of one hash container
    HashOrder { container: String },
    /// twin run of one scenario (sampled tripwire)
    Twin { what: String, idx: usize },
    /// one simulation / construction run inside rayon pools of 1..16 threads: output must not depend on the pool
    PoolSize { what: String },
    /// subject `b` run right after subject `a` on the same thread must give what it gives on a fresh thread
    History { a: usize, b: usize },
}

/// element kinds: 0 short ok conv, 1 long ok BEL, 2 fails at step 1 (conv), 3 fails at step 4 (BEL),
/// 4 long ok conv, 5 fails at step 2 (conv)
pub fn element(kind: u8) -> LocomotiveSimulation {
    let (loco, len, fail): (Locomotive, usize, Option<usize>) = match kind {
        0 => (Locomotive::default(), 4, None),
        1 => (Locomotive::default_battery_electric_loco(), 9, None),
        2 => (Locomotive::default(), 5, Some(1)),
        3 => (Locomotive::default_battery_electric_loco(), 7, Some(4)),
        4 => (Locomotive::default(), 12, None),
        _ => (Locomotive::default(), 6, Some(2)),
    };
    let time: Vec<f64> = (0..=len).map(|x| x as f64).collect();
    let pwr: Vec<f64> = (0..=len).map(|i| if Some(i) == fail { 1.0e12 } else { 1.5e5 + 2.0e4 * i as f64 + 1.0e3 * kind as f64 }).collect();
    LocomotiveSimulation::new(loco, PowerTrace::new(time, pwr, vec![Some(true); len + 1]), Some(1))
}

/// serial reference of one element: (final object, ok?)
fn serial(kind: u8) -> (LocomotiveSimulation, bool) {
    let mut e = element(kind);
    let ok = e.walk().is_ok();
    (e, ok)
}

/// status of an element after a batch execution: 'o' equals its serial walk (ok), 'x' equals its serial walk (failed),
/// '-' untouched, '?' anything else
fn status(kind: u8, after: &LocomotiveSimulation, refs: &HashMap<u8, (LocomotiveSimulation, bool)>) -> char {
    let (s, ok) = &refs[&kind];
    if after == s {
        if *ok {
            'o'
        } else {
            'x'
        }
    } else if after == &element(kind) {
        '-'
    } else {
        '?'
    }
}

fn refs_for(kinds: &[u8]) -> HashMap<u8, (LocomotiveSimulation, bool)> {
    let mut m = HashMap::new();
    for k in kinds {
        m.entry(*k).or_insert_with(|| serial(*k));
    }
    m
}

/// oracle on one execution's outcome string, e.g. "E:x-o" (batch result, per-element status)
fn judge_outcome(kinds: &[u8], out: &str, err_idx: Option<usize>, refs: &HashMap<u8, (LocomotiveSimulation, bool)>) -> Vec<(String, String)> {
    let mut f = vec![];
    let (res, st) = out.split_once(':').unwrap_or(("?", ""));
    let st: Vec<char> = st.chars().collect();
    if st.contains(&'?') {
        f.push(("element-differs-from-its-serial-walk@LocomotiveSimulationVec::walk".into(), format!("batch {:?}: outcome {out}: an element is neither equal to its serial result nor untouched", kinds)));
    }
    let any_failed = st.contains(&'x');
    if (res == "O") == any_failed || (res == "O" && st.contains(&'-')) {
        f.push(("batch-result-inconsistent-with-elements@LocomotiveSimulationVec::walk".into(), format!("batch {:?}: outcome {out}", kinds)));
    }
    for (i, k) in kinds.iter().enumerate() {
        // an element that cannot fail serially must never be reported failed, and vice versa
        if st.get(i) == Some(&'x') && refs[k].1 || st.get(i) == Some(&'o') && !refs[k].1 {
            f.push(("element-outcome-differs-from-serial@LocomotiveSimulationVec::walk".into(), format!("batch {:?}: outcome {out}", kinds)));
        }
    }
    if res == "E" {
        match err_idx {
            Some(i) if st.get(i) == Some(&'x') => {}
            other => f.push(("error-does-not-name-a-failing-element-that-ran@LocomotiveSimulationVec::walk".into(), format!("batch {:?}: outcome {out}, error names element {:?}", kinds, other))),
        }
    }
    f
}

/// Part 1a: shuttle check_dfs over the contract model; returns (outcome set, schedules)
pub fn shuttle_batch(kinds: &[u8]) -> (BTreeSet<String>, usize) {
    use shuttle::sync::atomic::{AtomicBool, Ordering};
    let outcomes: Arc<Mutex<BTreeSet<String>>> = Arc::new(Mutex::new(BTreeSet::new()));
    let out2 = outcomes.clone();
    let kinds_v = kinds.to_vec();
    let refs = Arc::new(refs_for(kinds));
    let mut config = shuttle::Config::new();
    config.stack_size = 1 << 20;
    config.silence_warnings = true;
    let runner = shuttle::Runner::new(shuttle::scheduler::DfsScheduler::new(None, false), config);
    let n = runner.run(move || {
        let full = Arc::new(AtomicBool::new(false));
        let mut handles = vec![];
        for (i, k) in kinds_v.iter().enumerate() {
            let full = full.clone();
            let k = *k;
            handles.push(shuttle::thread::spawn(move || {
                let mut e = element(k);
                let mut err = None;
                // rayon's try_for_each contract: once an error is recorded no NEW element starts
                if !full.load(Ordering::SeqCst) {
                    if let Err(er) = e.walk() {
                        full.store(true, Ordering::SeqCst);
                        err = Some((i, format!("{er:#}")));
                    }
                }
                (e, err)
            }));
        }
        let mut st = String::new();
        let mut first_err: Option<usize> = None;
        for (i, h) in handles.into_iter().enumerate() {
            let (e, err) = h.join().unwrap();
            st.push(status(kinds_v[i], &e, &refs));
            if let Some((j, _)) = err {
                if first_err.is_none() {
                    first_err = Some(j);
                }
            }
        }
        let out = format!("{}:{}", if first_err.is_some() { "E" } else { "O" }, st);
        out2.lock().unwrap().insert(out);
    });
    let set = outcomes.lock().unwrap().clone();
    (set, n)
}

/// Part 1b: explicit enumeration of all interleavings of the events C_i (reads the flag, starts) and F_i (finishes,
/// sets the flag on error); the real walk is executed at F_i.  (2N)!/2^N executions.
pub fn enumerate_batch(kinds: &[u8]) -> (BTreeSet<String>, u64) {
    let n = kinds.len();
    let refs = refs_for(kinds);
    let mut outcomes = BTreeSet::new();
    let mut count = 0u64;
    // state per element: 0 not started, 1 started (C done), 2 finished / skipped
    fn rec(kinds: &[u8], state: &mut Vec<u8>, started: &mut Vec<bool>, full: bool, sims: &mut Vec<LocomotiveSimulation>, refs: &HashMap<u8, (LocomotiveSimulation, bool)>, outcomes: &mut BTreeSet<String>, count: &mut u64) {
        let n = kinds.len();
        if state.iter().all(|s| *s == 2) {
            *count += 1;
            let st: String = (0..n).map(|i| status(kinds[i], &sims[i], refs)).collect();
            outcomes.insert(format!("{}:{}", if st.contains('x') { "E" } else { "O" }, st));
            return;
        }
        for i in 0..n {
            match state[i] {
                0 => {
                    // C_i: read the flag
                    state[i] = if full { 2 } else { 1 };
                    started[i] = !full;
                    rec(kinds, state, started, full, sims, refs, outcomes, count);
                    state[i] = 0;
                    started[i] = false;
                }
                1 => {
                    // F_i: run the real walk on a fresh copy, set the flag on error
                    let saved = sims[i].clone();
                    let failed = sims[i].walk().is_err();
                    state[i] = 2;
                    rec(kinds, state, started, full || failed, sims, refs, outcomes, count);
                    state[i] = 1;
                    sims[i] = saved;
                }
                _ => {}
            }
        }
    }
    let mut sims: Vec<LocomotiveSimulation> = kinds.iter().map(|k| element(*k)).collect();
    rec(kinds, &mut vec![0; n], &mut vec![false; n], false, &mut sims, &refs, &mut outcomes, &mut count);
    (outcomes, count)
}

/// closed form of the contract's outcome set (used for batches too large to enumerate, validated against the
/// enumeration for every explored batch): the set R of elements that ran is either everything, or any set that
/// contains at least one failing element; the batch fails iff a failing element ran
pub fn model_contains(kinds: &[u8], out: &str, refs: &HashMap<u8, (LocomotiveSimulation, bool)>) -> bool {
    let Some((res, st)) = out.split_once(':') else { return false };
    let st: Vec<char> = st.chars().collect();
    if st.len() != kinds.len() {
        return false;
    }
    let mut failing_ran = false;
    let mut any_skipped = false;
    for (i, k) in kinds.iter().enumerate() {
        let fails = !refs[k].1;
        match st[i] {
            'o' if !fails => {}
            'x' if fails => failing_ran = true,
            '-' => any_skipped = true,
            _ => return false,
        }
    }
    if any_skipped && !failing_ran {
        return false;
    }
    (res == "E") == failing_ran
}

fn err_index(e: &str) -> Option<usize> {
    e.find("loco_sim idx:").and_then(|p| e[p + 13..].chars().take_while(|c| c.is_ascii_digit()).collect::<String>().parse().ok())
}

/// binding: real rayon walk(true) in pools of 1..16 threads x reps, and walk(false)
pub fn rayon_binding(kinds: &[u8], reps: usize) -> (Vec<(String, String)>, u64, BTreeSet<String>) {
    let mut f = vec![];
    let refs = refs_for(kinds);
    let mut n = 0u64;
    let mut seen = BTreeSet::new();
    for threads in 1..=16usize {
        let pool = match rayon::ThreadPoolBuilder::new().num_threads(threads).build() {
            Ok(p) => p,
            Err(e) => {
                f.push(("rayon-pool@harness".into(), e.to_string()));
                continue;
            }
        };
        for _ in 0..reps {
            let mut v = LocomotiveSimulationVec(kinds.iter().map(|k| element(*k)).collect());
            let r = pool.install(|| guarded(|| v.walk(true)));
            n += 1;
            let (res, idx) = match r {
                Err(p) => {
                    f.push(("panic@LocomotiveSimulationVec::walk:parallel".into(), p));
                    continue;
                }
                Ok(Ok(())) => ("O", None),
                Ok(Err(e)) => ("E", err_index(&format!("{e:#}"))),
            };
            let st: String = (0..kinds.len()).map(|i| status(kinds[i], &v.0[i], &refs)).collect();
            let out = format!("{res}:{st}");
            f.extend(judge_outcome(kinds, &out, idx, &refs));
            if !model_contains(kinds, &out, &refs) {
                f.push(("parallel-outcome-outside-the-explored-set@LocomotiveSimulationVec::walk".into(), format!("batch {:?} with {threads} threads produced {out}, which is not an outcome of the explored contract", kinds)));
            }
            seen.insert(out);
        }
    }
    // serial: elements before the first failing one walked, the failing one in its error state, the rest untouched
    let mut v = LocomotiveSimulationVec(kinds.iter().map(|k| element(*k)).collect());
    let r = guarded(|| v.walk(false));
    n += 1;
    let first_fail = kinds.iter().position(|k| !refs[k].1);
    let st: String = (0..kinds.len()).map(|i| status(kinds[i], &v.0[i], &refs)).collect();
    let want: String = (0..kinds.len())
        .map(|i| match first_fail {
            Some(ff) if i == ff => 'x',
            Some(ff) if i > ff => '-',
            _ => 'o',
        })
        .collect();
    let ok = matches!(&r, Ok(rr) if rr.is_ok() == first_fail.is_none());
    if st != want || !ok {
        f.push(("serial-batch-differs-from-element-wise-serial-walks@LocomotiveSimulationVec::walk".into(), format!("batch {:?}: walk(false) gives {st}, expected {want}", kinds)));
    }
    f.sort_by(|a, b| a.0.cmp(&b.0));
    f.dedup_by(|a, b| a.0 == b.0);
    (f, n, seen)
}

// ------------------------------------------------------------------------------------------------ part 2
fn realise_orders<K: Clone + Eq + std::hash::Hash + std::fmt::Debug, V: Clone>(items: &[(K, V)]) -> (Vec<HashMap<K, V>>, usize) {
    let k = items.len();
    let want: usize = (1..=k).product();
    let mut seen: BTreeSet<String> = BTreeSet::new();
    let mut maps = vec![];
    let mut tries = 0;
    while seen.len() < want && tries < 20000 {
        tries += 1;
        let mut m: HashMap<K, V> = HashMap::new();
        for (a, b) in items {
            m.insert(a.clone(), b.clone());
        }
        let order: String = format!("{:?}", m.keys().collect::<Vec<_>>());
        if seen.insert(order) {
            maps.push(m);
        }
    }
    (maps, want)
}

pub fn hash_order(container: &str) -> (Vec<(String, String)>, u64, u64) {
    let mut f = vec![];
    let mut evals = 0u64;
    let mut orders = 0u64;
    match container {
        "Link.speed_sets" => {
            let mk = |v: f64| SpeedSet { speed_limits: speed_limits_from(&[(0.0, 1000.0, v), (200.0, 600.0, v * 0.5)]), speed_params: vec![], is_head_end: false };
            let items = vec![(TrainType::Freight, mk(20.0)), (TrainType::Passenger, mk(30.0)), (TrainType::Intermodal, mk(25.0))];
            let (maps, want) = realise_orders(&items);
            orders = maps.len() as u64;
            if maps.len() != want {
                f.push(("not-all-iteration-orders-realised@harness".into(), format!("{} of {}", maps.len(), want)));
            }
            let mut outs: BTreeSet<String> = BTreeSet::new();
            for m in maps {
                let mut net = build_topology(&line_topology(&[1000.0], 20.0), false, SetStyle::Map);
                net.0[1].speed_sets = m;
                for tt in [TrainType::Freight, TrainType::Passenger, TrainType::Intermodal] {
                    let mut tp = train_params(300.0, 40.0);
                    tp.train_type = tt;
                    let mut p = PathTpc::new(tp);
                    let r = p.extend(&net, &[lidx(1)]);
                    evals += 1;
                    outs.insert(format!("{:?}:{:?}:{}", tt, r.is_ok(), serde_json::to_string(&p).unwrap()));
                }
                // validation iterates the map too
                evals += 1;
                outs.insert(format!("valid:{}", altrios_core::validate::ObjState::validate(&net).is_ok()));
            }
            if outs.len() != 4 {
                f.push(("output-depends-on-hash-iteration-order@Link.speed_sets".into(), format!("{} distinct outputs over the iteration orders, expected 4 (3 train types + validation)", outs.len())));
            }
        }
        "TrainConfig.n_cars_by_type" => {
            // four car types with non-round masses and counts chosen so that plain f64 summation of mass x count is
            // order-sensitive (checked below): an accumulation that follows the map's iteration order would show
            let specs: Vec<(&str, f64, f64, u32)> = vec![("Alpha", 47527.592, 72801.787, 7), ("Beta", 30363.44, 59576.249, 11), ("Gamma", 32292.845, 27101.932, 9), ("Delta", 23254.751, 30886.54, 17)];
            {
                let terms: Vec<f64> = specs.iter().map(|s| (s.1 + s.2) * s.3 as f64).collect();
                let mut sums: BTreeSet<u64> = BTreeSet::new();
                let idx = [0usize, 1, 2, 3];
                for a in idx {
                    for b in idx {
                        for c in idx {
                            for d in idx {
                                if a != b && a != c && a != d && b != c && b != d && c != d {
                                    sums.insert((((terms[a] + terms[b]) + terms[c]) + terms[d]).to_bits());
                                }
                            }
                        }
                    }
                }
                if sums.len() < 2 {
                    f.push(("masses-not-order-sensitive@harness".into(), "the chosen car masses sum to the same f64 in every order".into()));
                }
            }
            let items: Vec<(String, u32)> = specs.iter().map(|s| (s.0.to_string(), s.3)).collect();
            let (maps, want) = realise_orders(&items);
            orders = maps.len() as u64;
            if maps.len() != want {
                f.push(("not-all-iteration-orders-realised@harness".into(), format!("{} of {}", maps.len(), want)));
            }
            let mut outs: BTreeSet<String> = BTreeSet::new();
            let mut params: BTreeSet<String> = BTreeSet::new();
            for m in maps {
                let rvs: Vec<_> = specs
                    .iter()
                    .map(|s| {
                        let mut rv = manifest(true, true);
                        rv.car_type = s.0.to_string();
                        rv.mass_static_base = s.1 * uc::KG;
                        rv.mass_freight = s.2 * uc::KG;
                        rv.cd_area = (1.0 + s.1 * 1e-5) * uc::M2;
                        rv.davis_b = 3.1e-5 * uc::SPM;
                        rv
                    })
                    .collect();
                let tc = altrios_core::train::TrainConfig::new(rvs, m, TrainType::Freight, None, None, None).unwrap();
                evals += 1;
                params.insert(serde_json::to_string(&tc.make_train_params().unwrap()).unwrap());
                let b = altrios_core::train::TrainSimBuilder::new("t".into(), tc, consist(2, Some(1)), None, None, Some(InitTrainState::new(Some(0.0 * uc::S), None, Some(2.0 * uc::MPS))));
                let net = build_topology(&line_topology(&[3000.0], 20.0), false, SetStyle::Single);
                let mut sim = b.make_set_speed_train_sim(&net, &[lidx(1)], SpeedTrace::new(vec![0.0, 1.0, 2.0, 3.0], vec![2.0, 2.2, 2.4, 2.5], None), Some(1)).unwrap();
                let _ = sim.walk();
                evals += 1;
                // the map itself is part of the serialized sim only through the builder, not the sim: compare the sim
                outs.insert(serde_json::to_string(&sim).unwrap());
            }
            if params.len() != 1 {
                f.push(("output-depends-on-hash-iteration-order@TrainConfig.n_cars_by_type:make_train_params".into(), format!("{} distinct TrainParams over the iteration orders of equal inputs", params.len())));
            }
            if outs.len() != 1 {
                f.push(("output-depends-on-hash-iteration-order@TrainConfig.n_cars_by_type".into(), format!("{} distinct simulation outputs over the iteration orders of equal inputs", outs.len())));
            }
        }
        _ => {
            // LocationMap
            let items = vec![("A".to_string(), vec![location("A", 1)]), ("B".to_string(), vec![location("B", 2)]), ("C".to_string(), vec![location("C", 2), location("C", 1)])];
            let (maps, want) = realise_orders(&items);
            orders = maps.len() as u64;
            if maps.len() != want {
                f.push(("not-all-iteration-orders-realised@harness".into(), format!("{} of {}", maps.len(), want)));
            }
            let mut outs: BTreeSet<String> = BTreeSet::new();
            for m in maps {
                let b = builder(&train_spec(false), Some(("A", "C")), Some(InitTrainState::new(Some(0.0 * uc::S), None, None)), Some(1));
                let sim = b.make_speed_limit_train_sim(&m, Some(1), None, None).unwrap();
                evals += 1;
                outs.insert(serde_yaml::to_string(&sim).unwrap());
            }
            if outs.len() != 1 {
                f.push(("output-depends-on-hash-iteration-order@LocationMap".into(), format!("{} distinct outputs over the iteration orders", outs.len())));
            }
        }
    }
    (f, evals, orders)
}

// ------------------------------------------------------------------------------------------------ part 3
fn twin(what: &str, idx: usize) -> Vec<(String, String)> {
    let run = move |what: String| -> String {
        let topos = topologies(false);
        match what.as_str() {
            "est-times" => {
                let t = &topos[idx % topos.len()];
                let d = TrainDesc { od: idx % t.ods.len(), dep: 60, long: idx % 2 == 0 };
                match make_sim(t, &d, 1).ok().and_then(|s| make_est_times(s, &t.net.0).ok()) {
                    Some((n, _)) => serde_yaml::to_string(&n).unwrap_or_default(),
                    None => "err".into(),
                }
            }
            "dispatch" => {
                let t = &topos[idx % topos.len()];
                let ds: Vec<TrainDesc> = (0..3).map(|k| TrainDesc { od: (idx + k) % t.ods.len(), dep: [0, 60, 0][k], long: k == 1 }).collect();
                let mut nets = vec![];
                let mut sims = vec![];
                for (k, d) in ds.iter().enumerate() {
                    // a train that cannot be built on this topology (e.g. longer than its origin link): same answer both times
                    let Ok(s) = make_sim(t, d, k + 1) else { return "train-rejected".into() };
                    match make_est_times(s.clone(), &t.net.0) {
                        Ok(n) => nets.push(n.0),
                        Err(e) => return format!("est-times-rejected:{}", format!("{e:#}").lines().last().unwrap_or("")),
                    }
                    sims.push(s);
                }
                match run_dispatch(&t.net.0, &sims, nets, false, false) {
                    Ok(p) => serde_json::to_string(&p).unwrap_or_default(),
                    Err(e) => format!("err:{e:#}"),
                }
            }
            _ => {
                // speed-limited simulation
                let cs = crate::props::speedlimit_lab::cases(Tier::Quick);
                let c = &cs[(idx * 97) % cs.len()];
                let r = crate::props::speedlimit_lab::execute(c, "C12");
                format!("{}:{}:{}", r.outcome, r.steps, r.checks)
            }
        }
    };
    let w1 = what.to_string();
    let w2 = what.to_string();
    let a = std::thread::spawn(move || guarded(|| run(w1))).join().unwrap_or(Err("thread".into()));
    let b = std::thread::spawn(move || guarded(|| run(w2))).join().unwrap_or(Err("thread".into()));
    if a != b {
        if std::env::var("MC_LOUD").is_ok() {
            eprintln!("run 1: {:?}\nrun 2: {:?}", a, b);
        }
        vec![(format!("two-runs-on-equal-inputs-differ@{what}"), format!("scenario {idx}: outputs differ byte for byte"))]
    } else {
        vec![]
    }
}

// ------------------------------------------------------------------------------------------------ part 4
/// seven conventional units whose fuel powers are pairwise different, non-round numbers (different engine ratings,
/// maps and auxiliary loads), so that f64 sums over the units depend on the order of summation
fn order_sensitive_consist() -> altrios_core::consist::Consist {
    use crate::domain::pt::*;
    let cfgs = [
        LocoCfg::Conv { fc: FC0, gen: GEN0, edrv: EDRV0, aux: AUX0 },
        LocoCfg::Conv { fc: FcCfg { rating: 1.0e6, lag: 5.0, ..FC0 }, gen: GEN0, edrv: EDRV0, aux: AuxCfg { offset: 11_237.77, coeff: 0.00071 } },
        LocoCfg::Conv { fc: FcCfg { map: 1, ..FC0 }, gen: GEN0, edrv: EDRV0, aux: AuxCfg { offset: 3_001.3, coeff: 0.00013 } },
        LocoCfg::Conv { fc: FcCfg { map: 2, rating: 2.2e6, ..FC0 }, gen: GEN0, edrv: EDRV0, aux: AUX0 },
        LocoCfg::Conv { fc: FcCfg { rating: 4.1e6, lag: 40.0, ..FC0 }, gen: GenCfg { eta: 1, ..GEN0 }, edrv: EDRV0, aux: AuxCfg { offset: 19_999.9, coeff: 0.00093 } },
        LocoCfg::Conv { fc: FC0, gen: GEN0, edrv: EdrvCfg { eta: 1, ..EDRV0 }, aux: AuxCfg { offset: 777.7, coeff: 0.00029 } },
        LocoCfg::Conv { fc: FcCfg { rating: 1.7e6, lag: 12.0, ..FC0 }, gen: GEN0, edrv: EDRV0, aux: AuxCfg { offset: 6_543.21, coeff: 0.00047 } },
    ];
    let locos: Vec<Locomotive> = cfgs.iter().map(build_loco).collect();
    altrios_core::consist::Consist::new(locos, Some(1), pdct(false))
}

fn pool_subject(what: &str) -> Result<String, String> {
    let topos = topologies(false);
    match what {
        "consist-7-units" => {
            let n = 12usize;
            let time: Vec<f64> = (0..=n).map(|x| x as f64).collect();
            let pwr: Vec<f64> = (0..=n).map(|i| 3.1e5 + 1.37e5 * i as f64).collect();
            let mut sim = altrios_core::consist::consist_sim::ConsistSimulation::new(order_sensitive_consist(), PowerTrace::new(time, pwr, vec![Some(true); n + 1]), Some(1));
            sim.walk().map_err(|e| format!("{e:#}"))?;
            serde_json::to_string(&sim).map_err(|e| e.to_string())
        }
        "set-speed-train" => {
            let net = build_topology(&line_topology(&[1200.0, 900.0], 15.0), true, SetStyle::Map);
            let spec = TrainSpec { n_loaded: 7, n_empty: 5, davis: true, mass_override: None, length_override: None, consist: 3, cd_vec: false };
            let b = builder(&spec, None, Some(InitTrainState::new(Some(0.0 * uc::S), None, Some(3.0 * uc::MPS))), Some(1));
            let n = 20usize;
            let time: Vec<f64> = (0..=n).map(|x| x as f64).collect();
            let speed: Vec<f64> = (0..=n).map(|i| 3.0 + 0.13 * i as f64).collect();
            let mut sim = b.make_set_speed_train_sim(&net, &[lidx(1), lidx(2)], SpeedTrace::new(time, speed, None), Some(1)).map_err(|e| format!("{e:#}"))?;
            sim.walk().map_err(|e| format!("{e:#}"))?;
            serde_json::to_string(&sim).map_err(|e| e.to_string())
        }
        "est-times" => {
            let t = topos.iter().find(|t| t.name == "scissors").ok_or("topology")?;
            let s = make_sim(t, &TrainDesc { od: 0, dep: 60, long: true }, 1)?;
            let (n, _) = make_est_times(s, &t.net.0).map_err(|e| format!("{e:#}"))?;
            serde_json::to_string(&n).map_err(|e| e.to_string())
        }
        _ => {
            let t = topos.iter().find(|t| t.name == "double-track").ok_or("topology")?;
            let ds = [TrainDesc { od: 0, dep: 0, long: true }, TrainDesc { od: 0, dep: 60, long: false }, TrainDesc { od: 1, dep: 0, long: false }];
            let mut nets = vec![];
            let mut sims = vec![];
            for (k, d) in ds.iter().enumerate() {
                let s = make_sim(t, d, k + 1)?;
                nets.push(make_est_times(s.clone(), &t.net.0).map_err(|e| format!("{e:#}"))?.0);
                sims.push(s);
            }
            let p = run_dispatch(&t.net.0, &sims, nets, false, false).map_err(|e| format!("{e:#}"))?;
            serde_json::to_string(&p).map_err(|e| e.to_string())
        }
    }
}

/// self-check of the order-sensitive consist: the per-unit fuel powers of its last step must sum to different f64
/// values in at least two of the orders tried, otherwise a parallel reduction could not be told from the serial one
fn consist_is_order_sensitive() -> bool {
    let n = 12usize;
    let time: Vec<f64> = (0..=n).map(|x| x as f64).collect();
    let pwr: Vec<f64> = (0..=n).map(|i| 3.1e5 + 1.37e5 * i as f64).collect();
    let mut sim = altrios_core::consist::consist_sim::ConsistSimulation::new(order_sensitive_consist(), PowerTrace::new(time, pwr, vec![Some(true); n + 1]), Some(1));
    if sim.walk().is_err() {
        return false;
    }
    let vals: Vec<f64> = sim.loco_con.loco_vec.iter().map(|l| l.fuel_converter().map(|f| f.state.pwr_fuel.value).unwrap_or(0.0)).collect();
    let serial: f64 = vals.iter().sum();
    let k = vals.len();
    // every split point of a two-way tree reduction, and the reversed order
    let mut sums: BTreeSet<u64> = BTreeSet::new();
    sums.insert(serial.to_bits());
    for cut in 1..k {
        let a: f64 = vals[..cut].iter().sum();
        let b: f64 = vals[cut..].iter().sum();
        sums.insert((a + b).to_bits());
        for cut2 in (cut + 1)..k {
            let b1: f64 = vals[cut..cut2].iter().sum();
            let b2: f64 = vals[cut2..].iter().sum();
            sums.insert((a + (b1 + b2)).to_bits());
            sums.insert(((a + b1) + b2).to_bits());
        }
    }
    sums.len() > 1
}

pub fn pool_size(what: &str, reps: usize) -> (Vec<(String, String)>, u64) {
    let mut f = vec![];
    let mut n = 0u64;
    if what == "consist-7-units" && !consist_is_order_sensitive() {
        f.push(("order-insensitive-data@harness".into(), "the per-unit fuel powers of the seven-unit consist sum to the same f64 in every order tried".into()));
    }
    let one = rayon::ThreadPoolBuilder::new().num_threads(1).build();
    let reference = match one {
        Ok(p) => p.install(|| guarded(|| pool_subject(what))),
        Err(e) => Err(e.to_string()),
    };
    let reference = match reference {
        Ok(Ok(r)) => r,
        Ok(Err(e)) => {
            f.push(("subject-failed@harness".into(), format!("{what}: {e}")));
            return (f, n);
        }
        Err(p) => {
            f.push((format!("panic@{what}:pool-of-1"), p));
            return (f, n);
        }
    };
    // outside any explicit pool (the process-wide default pool) as well
    let mut runs: Vec<(String, Result<Result<String, String>, String>)> = vec![("default pool".into(), guarded(|| pool_subject(what)))];
    for threads in 1..=16usize {
        let pool = match rayon::ThreadPoolBuilder::new().num_threads(threads).build() {
            Ok(p) => p,
            Err(e) => {
                f.push(("rayon-pool@harness".into(), e.to_string()));
                continue;
            }
        };
        for _ in 0..reps {
            runs.push((format!("{threads} threads"), pool.install(|| guarded(|| pool_subject(what)))));
        }
    }
    for (label, r) in runs {
        n += 1;
        match r {
            Ok(Ok(out)) => {
                if out != reference {
                    let pos = out.bytes().zip(reference.bytes()).position(|(a, b)| a != b).unwrap_or(0);
                    let lo = pos.saturating_sub(60);
                    f.push((format!("output-depends-on-worker-count@{what}"), format!("{label}: output differs from the run in a pool of 1 thread at byte {pos}: ...{} vs ...{}", &out[lo..(pos + 30).min(out.len())], &reference[lo..(pos + 30).min(reference.len())])));
                    break;
                }
            }
            Ok(Err(e)) => {
                f.push((format!("outcome-depends-on-worker-count@{what}"), format!("{label}: error {e} where the pool of 1 thread succeeds")));
                break;
            }
            Err(p) => {
                f.push((format!("panic@{what}:{label}"), p));
                break;
            }
        }
    }
    (f, n)
}

// ------------------------------------------------------------------------------------------------ part 5
pub const N_HISTORY_SUBJECTS: usize = 7;
/// a small catalogue of different simulations / constructions; several set-speed runs on routes whose link extents
/// overlap differently (one 10 km link; 300 m + 5 km; 1.2 km + 0.9 km; the reverse direction)
fn history_subject(k: usize) -> Result<String, String> {
    let ss = |lens: &[f64], route: &[usize], n: usize| -> Result<String, String> {
        let net = build_topology(&line_topology(lens, 15.0), true, SetStyle::Map);
        let spec = TrainSpec { n_loaded: 7, n_empty: 3, davis: true, mass_override: None, length_override: None, consist: 2, cd_vec: false };
        let b = builder(&spec, None, Some(InitTrainState::new(Some(0.0 * uc::S), None, Some(6.0 * uc::MPS))), Some(1));
        let time: Vec<f64> = (0..=n).map(|x| x as f64).collect();
        let speed: Vec<f64> = (0..=n).map(|i| 6.0 + 0.1 * i as f64).collect();
        let r: Vec<_> = route.iter().map(|i| lidx(*i)).collect();
        let mut sim = b.make_set_speed_train_sim(&net, &r, SpeedTrace::new(time, speed, None), Some(1)).map_err(|e| format!("{e:#}"))?;
        sim.walk().map_err(|e| format!("{e:#}"))?;
        serde_json::to_string(&sim).map_err(|e| e.to_string())
    };
    match k {
        0 => ss(&[10_000.0], &[1], 30),
        1 => ss(&[300.0, 5000.0], &[1, 2], 40),
        2 => ss(&[1200.0, 900.0], &[1, 2], 60),
        3 => ss(&[1200.0, 900.0], &[4, 3], 60),
        4 => {
            let cs = crate::props::speedlimit_lab::cases(Tier::Quick);
            let c = cs.iter().find(|c| c.link_len.len() == 3).ok_or("no chain case")?;
            let r = crate::props::speedlimit_lab::execute(c, "C12");
            Ok(format!("{}:{}:{}", r.outcome, r.steps, r.checks))
        }
        5 => pool_subject("consist-7-units"),
        _ => pool_subject("est-times"),
    }
}

pub fn history_pair(a: usize, b: usize) -> Vec<(String, String)> {
    let fresh = std::thread::spawn(move || guarded(|| history_subject(b))).join().unwrap_or(Err("thread".into()));
    let after = std::thread::spawn(move || {
        let _ = guarded(|| history_subject(a));
        guarded(|| history_subject(b))
    })
    .join()
    .unwrap_or(Err("thread".into()));
    match (fresh, after) {
        (Ok(Ok(x)), Ok(Ok(y))) => {
            if x != y {
                let pos = x.bytes().zip(y.bytes()).position(|(p, q)| p != q).unwrap_or(0);
                let lo = pos.saturating_sub(50);
                vec![("output-depends-on-what-ran-before-on-the-thread@history".into(), format!("subject {b} after subject {a} differs from subject {b} on a fresh thread at byte {pos}: ...{} vs ...{}", &y[lo..(pos + 30).min(y.len())], &x[lo..(pos + 30).min(x.len())]))]
            } else {
                vec![]
            }
        }
        (Ok(Ok(_)), other) => vec![("outcome-depends-on-what-ran-before-on-the-thread@history".into(), format!("subject {b} after subject {a}: {:?}", other.map(|r| r.map(|s| s.len()))))],
        (f, _) => vec![("subject-failed@harness".into(), format!("subject {b} on a fresh thread: {:?}", f.map(|r| r.map(|s| s.len()))))],
    }
}

pub struct C18;

fn kinds_alphabet(tier: Tier) -> Vec<u8> {
    if tier.is_thorough() {
        vec![0, 1, 2, 3, 4, 5]
    } else {
        vec![0, 1, 2, 3]
    }
}

pub fn batches(tier: Tier, n: usize) -> Vec<Vec<u8>> {
    let al = kinds_alphabet(tier);
    let mut cur: Vec<Vec<u8>> = vec![vec![]];
    for _ in 0..n {
        let mut next = vec![];
        for c in &cur {
            for k in &al {
                let mut x = c.clone();
                x.push(*k);
                next.push(x);
            }
        }
        cur = next;
    }
    cur
}

pub fn run_case(c: &Case, tier: Tier) -> (Vec<(String, String)>, u64, u64, u64, String) {
    // returns (fails, states/schedules, transitions, validated, signature)
    match c {
        Case::Batch { kinds } => {
            let refs = refs_for(kinds);
            let mut f = vec![];
            let (set_e, n_e) = enumerate_batch(kinds);
            let mut schedules = n_e;
            for o in &set_e {
                f.extend(judge_outcome(kinds, o, o.split_once(':').and_then(|(_, st)| st.chars().position(|c| c == 'x')), &refs));
                // the closed form used for large batches must agree with the enumeration
                if !model_contains(kinds, o, &refs) {
                    f.push(("closed-form-model-disagrees-with-enumeration@harness".into(), format!("batch {:?}: {o}", kinds)));
                }
            }
            // ... in both directions: count the closed form's outcomes
            {
                let n = kinds.len();
                let mut cnt = 0usize;
                for mask in 0..(1u32 << n) {
                    let st: String = (0..n).map(|i| if mask & (1 << i) != 0 { if refs[&kinds[i]].1 { 'o' } else { 'x' } } else { '-' }).collect();
                    for res in ["O", "E"] {
                        if model_contains(kinds, &format!("{res}:{st}"), &refs) {
                            cnt += 1;
                        }
                    }
                }
                if cnt != set_e.len() {
                    f.push(("closed-form-model-disagrees-with-enumeration@harness".into(), format!("batch {:?}: closed form has {cnt} outcomes, enumeration {}", kinds, set_e.len())));
                }
            }
            if kinds.len() <= 3 {
                match guarded(|| shuttle_batch(kinds)) {
                    Ok((set_s, n_s)) => {
                        schedules += n_s as u64;
                        if set_s != set_e {
                            f.push(("scheduler-and-enumerator-disagree@harness".into(), format!("batch {:?}: shuttle {:?} vs enumerator {:?}", kinds, set_s, set_e)));
                        }
                    }
                    Err(p) => f.push(("shuttle-failed@harness".into(), p.chars().take(300).collect())),
                }
            }
            f.sort_by(|a, b| a.0.cmp(&b.0));
            f.dedup_by(|a, b| a.0 == b.0);
            (f, schedules, schedules * kinds.len() as u64 * 2, 0, format!("batch:n{}:outcomes{}", kinds.len(), set_e.len()))
        }
        Case::Rayon { kinds } => {
            let (f, n, seen) = rayon_binding(kinds, if tier.is_thorough() { 20 } else { 6 });
            (f, n, n, n, format!("rayon:n{}:seen{}", kinds.len(), seen.len()))
        }
        Case::HashOrder { container } => {
            let (f, evals, orders) = hash_order(container);
            (f, evals, evals, 0, format!("hash:{container}:orders{orders}"))
        }
        Case::Twin { what, idx } => {
            let f = twin(what, *idx);
            (f, 2, 2, 0, format!("twin:{what}"))
        }
        Case::PoolSize { what } => {
            let (f, n) = pool_size(what, if tier.is_thorough() { 12 } else { 3 });
            (f, n, n, n, format!("pool-size:{what}"))
        }
        Case::History { a, b } => {
            let f = history_pair(*a, *b);
            (f, 2, 3, 1, "history-pair".to_string())
        }
    }
}

pub fn cases(tier: Tier) -> Vec<Case> {
    let mut v = vec![];
    for n in 1..=3 {
        for b in batches(tier, n) {
            // the scheduler explores every interleaving whatever the spawn order, so the quick tier takes one ordered
            // batch per multiset of element kinds (the thorough tier takes every ordered batch)
            if !tier.is_thorough() && !b.windows(2).all(|w| w[0] <= w[1]) {
                continue;
            }
            v.push(Case::Batch { kinds: b });
        }
    }
    // N = 4: all batches over {ok conv, ok BEL, fail@1, fail@k}; N = 5: representatives
    for b in batches(Tier::Quick, 4) {
        if tier.is_thorough() || (b[0] as usize + b[1] as usize * 3 + b[2] as usize * 5 + b[3] as usize * 7) % 8 == 0 {
            v.push(Case::Batch { kinds: b });
        }
    }
    for b in [vec![2u8, 3, 0, 1, 0], vec![0, 1, 0, 1, 3], vec![3, 2, 3, 2, 0]] {
        v.push(Case::Batch { kinds: b });
    }
    for b in [vec![0u8, 1, 0], vec![3, 2, 0, 1], vec![0, 1, 3, 0, 1, 0, 2, 1], vec![2, 0, 1, 0, 1, 0, 1, 0, 1, 0, 1, 0, 1, 0, 1, 0]] {
        v.push(Case::Rayon { kinds: b });
    }
    // exactly ONE failing element, at every position of a 7-element batch: which element the error names is then
    // independent of timing, so a wrong index shows on every run and for every pool size that splits the batch there
    for failing in [2u8, 3] {
        for pos in 0..7usize {
            let mut b: Vec<u8> = vec![0, 1, 0, 1, 0, 1, 0];
            b[pos] = failing;
            v.push(Case::Rayon { kinds: b });
        }
    }
    for c in ["Link.speed_sets", "TrainConfig.n_cars_by_type", "LocationMap"] {
        v.push(Case::HashOrder { container: c.into() });
    }
    for what in ["consist-7-units", "set-speed-train", "est-times", "dispatch"] {
        v.push(Case::PoolSize { what: what.into() });
    }
    for a in 0..N_HISTORY_SUBJECTS {
        for b in 0..N_HISTORY_SUBJECTS {
            v.push(Case::History { a, b });
        }
    }
    let n_twin = if tier.is_thorough() { 24 } else { 6 };
    for what in ["est-times", "dispatch", "speed-limited"] {
        for i in 0..n_twin {
            v.push(Case::Twin { what: what.into(), idx: i });
        }
    }
    v
}

impl Prop for C18 {
    fn id(&self) -> &'static str {
        "C18"
    }
    fn irreproducibility_is_violation(&self) -> bool {
        true
    }
    fn rule(&self, tier: Tier) -> String {
        format!("Part 1 (decides): the only concurrent seam, LocomotiveSimulationVec::walk(true) = rayon par_iter_mut().try_for_each(walk), is explored through rayon's contract (each element visited at most once; after an error no new element starts; started ones finish): one scheduler thread per element sharing one flag, element bodies = the REAL LocomotiveSimulation::walk. shuttle check_dfs (unbounded DFS, every interleaving) for EVERY batch (quick tier: every multiset) of N <= 3 elements over {} element kinds (ok/failing at step 1/failing later x conv/BEL); for N = 4 (every batch over 4 kinds{}) and three N = 5 batches the same contract is enumerated explicitly over its 2N events ((2N)!/2^N interleavings); the two engines must produce the same outcome set for every N <= 3 batch. states = schedules. Binding: the real walk(true) runs inside rayon pools of 1..16 threads (four mixed batches and 14 seven-element batches with exactly one failing element at every position, where the element the error names does not depend on timing) ({} repetitions each) and every observed outcome must be a member of the explored outcome set; walk(false) must equal the element-wise serial reference. Part 2 (decides): for Link.speed_sets and LocationMap with 3 keys and TrainConfig.n_cars_by_type with 4 keys (car masses chosen so that f64 summation is order-sensitive), map instances are created until all 3! / 4! iteration orders are realised and the consuming pipeline must give identical outputs for each. Part 4 (decides for the pool sizes stated; work-stealing order inside one pool size is repeated, not controlled): a ConsistSimulation over seven conventional units whose fuel powers sum order-sensitively (self-checked), a set-speed train run, an estimated-time construction and a three-train dispatch run inside rayon pools of 1..16 threads ({} repetitions each) and in the default pool; every serialized output must equal the one from a pool of 1 thread byte for byte -- today none of them contains parallel code, the part exists so that parallelism introduced into them is measured against the serial result. Part 5 (decides): EVERY ordered pair (A, B) from a catalogue of 7 different simulations / constructions (four set-speed runs on routes whose link extents overlap differently, a speed-limited run, the consist run, an est-time construction): B run right after A on one thread must be byte-identical to B on a fresh thread -- state surviving between runs (statics, thread-locals, caches keyed too coarsely) shows as a difference. Part 3 (sampled tripwire, not a verdict): {} scenarios of est-time construction, dispatch and speed-limited simulation run twice in fresh threads and compared byte for byte. distinct_nontrivial = distinct (part, batch size, number of outcomes / orders) signatures.", kinds_alphabet(tier).len(), if tier.is_thorough() { "" } else { ", every 8th in the quick tier" }, if tier.is_thorough() { 20 } else { 6 }, if tier.is_thorough() { 12 } else { 3 }, if tier.is_thorough() { 72 } else { 18 })
    }
    fn assumptions(&self) -> Vec<String> {
        vec![
            "rayon itself is not put under the scheduler (shuttle cannot see inside it): its documented try_for_each contract is modelled and bound to the real implementation by membership of observed outcomes".into(),
            "interference inside one element's walk at a finer granularity than the walk has no synchronisation point to schedule at; it would need unsafe or interior mutability and would still surface as order dependence between whole walks".into(),
            "part 3 samples hash seeds and is reported separately; it never decides".into(),
        ]
    }
    fn wall_cap_s(&self, tier: Tier) -> u64 {
        match tier {
            Tier::Quick => 150,
            Tier::Thorough => 2400,
        }
    }
    fn explore(&self, ctx: &mut Ctx) {
        for c in cases(ctx.tier) {
            if !ctx.claim() {
                continue;
            }
            ctx.describe(&serde_json::to_value(&c).unwrap());
            let (f, states, trans, validated, sig) = run_case(&c, ctx.tier);
            ctx.evaluation();
            ctx.stats.states += states;
            ctx.stats.transitions += trans.max(1);
            ctx.stats.traces_validated += validated;
            ctx.checks(states);
            ctx.sig(&sig);
            match &c {
                Case::Twin { .. } => ctx.count("sampled-twin-runs"),
                Case::Batch { kinds } => ctx.count(&format!("batches-n{}", kinds.len())),
                _ => {}
            }
            ctx.sample(|| serde_json::to_value(&c).unwrap());
            // smallest first: a rayon batch with ONE failing element reproduces on every run, mixed batches need luck
            let size = match &c {
                Case::Rayon { kinds } => kinds.iter().filter(|k| matches!(**k, 2 | 3 | 5)).count() as u64,
                _ => 1,
            };
            for (k, w) in f {
                ctx.violation(&k, w, serde_json::to_value(&c).unwrap(), size);
            }
            if ctx.out_of_time() {
                break;
            }
        }
        ctx.finish();
    }
    fn replay(&self, case: &Value) -> ReplayOutcome {
        let c: Case = match serde_json::from_value(case.clone()) {
            Ok(c) => c,
            Err(e) => return ReplayOutcome { violations: vec![("bad-replay-file".into(), e.to_string())], observation: String::new() },
        };
        let (f, states, _, _, sig) = run_case(&c, Tier::Thorough);
        // the number of distinct outcomes a real rayon pool happens to show varies from run to run: it is not part of the
        // observation that two replays must agree on (the violation keys are)
        let sig = match &c {
            Case::Rayon { kinds } => format!("rayon:n{}", kinds.len()),
            _ => sig,
        };
        ReplayOutcome { violations: f, observation: format!("{sig} states={states}") }
    }
}
