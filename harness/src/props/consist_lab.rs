//! ConsistLab: E-SEQ on real `Consist` objects driven like `ConsistSimulation::solve_step`;
//! oracles for C10 (power split) and the consist halves of C01 / C09.
use super::ptlab::*;
use crate::domain::pt::*;
use crate::engine::seq::dfs;
use crate::engine::{close, guarded, Ctx, ReplayOutcome, Tier};
use altrios_core::consist::consist_sim::ConsistSimulation;
use altrios_core::consist::locomotive::loco_sim::PowerTrace;
use altrios_core::consist::{Consist, LocoTrait};
use altrios_core::uc;
use serde::{Deserialize, Serialize};
use serde_json::Value;

pub const CDEMANDS: [&str; 16] = ["0.6M", "0", "1e-6M", "0.3M", "M-", "M", "M+tol", "1.2M", "-0.5R", "-R", "-(R+D)/2", "-D", "-1.01D", "B-", "B", "B+"];

#[derive(Debug, Clone, Copy, PartialEq, Serialize, Deserialize)]
pub struct CLetter {
    pub demand: usize,
    pub dt: usize,
    /// engine command handed to `Consist::solve_energy_consumption`: 0 = Some(true) (what the shipped simulations
    /// pass), 1 = Some(false), 2 = None.  Only the public consist API can issue 1 / 2.
    #[serde(default)]
    pub eng: u8,
}
pub fn eng_cmd(e: u8) -> Option<bool> {
    match e {
        1 => Some(false),
        2 => None,
        _ => Some(true),
    }
}

fn cdemand_value(d: usize, m: f64, r: f64, drv: f64, b: f64) -> f64 {
    match CDEMANDS[d] {
        "B-" => b * (1.0 - 1e-9),
        "B" => b,
        "B+" => b * (1.0 + 1e-6),
        _ => demand_value(DEMANDS.iter().position(|x| *x == CDEMANDS[d]).unwrap(), m, r, drv),
    }
}

#[derive(Debug, Clone, Serialize, Deserialize)]
pub struct ConsistCase {
    pub units: Vec<LocoCfg>,
    pub res_greedy: bool,
    /// true: `set_pwr_dyn_brake_max()` called on the fresh consist (what `SerdeAPI::init` does on load)
    pub init: bool,
    /// true: the consist was first built from conventional units only and then given its real composition through
    /// the public `set_loco_vec` (a consist whose make-up was changed after construction)
    #[serde(default)]
    pub remarshal: bool,
    pub path: Vec<CLetter>,
}

pub fn build_case_consist(c: &ConsistCase) -> Consist {
    let mut con = if c.remarshal {
        let conv_only: Vec<LocoCfg> = c.units.iter().map(|_| consist_unit(0)).collect();
        let mut con = build_consist(&ConsistCfg { units: conv_only, res_greedy: c.res_greedy });
        con.set_loco_vec(c.units.iter().map(build_loco).collect());
        con.set_save_interval(None);
        con
    } else {
        build_consist(&ConsistCfg { units: c.units.clone(), res_greedy: c.res_greedy })
    };
    if c.init {
        con.set_pwr_dyn_brake_max();
    }
    con
}

#[derive(Debug, Clone)]
pub struct CInfo {
    pub dt: f64,
    pub demand: f64,
    pub m: f64,
    pub r: f64,
    pub drv: f64,
    pub b: f64,
    /// per-unit published (pwr_out_max, pwr_regen_max)
    pub unit_lims: Vec<(f64, f64)>,
    pub accepted: bool,
    pub panicked: bool,
    pub err: String,
}

pub fn step_consist(con: &mut Consist, demand: Result<usize, f64>, dt: f64, eng: u8) -> CInfo {
    let mut info = CInfo { dt, demand: 0.0, m: 0.0, r: 0.0, drv: 0.0, b: 0.0, unit_lims: vec![], accepted: false, panicked: false, err: String::new() };
    let res = guarded(|| -> Result<(), String> {
        con.set_pwr_aux(eng_cmd(eng)).map_err(|e| format!("{e:#}"))?;
        con.set_cur_pwr_max_out(None, dt * uc::S).map_err(|e| format!("{e:#}"))?;
        info.m = con.state.pwr_out_max.value;
        info.r = con.state.pwr_regen_max.value;
        info.b = con.state.pwr_out_max_reves.value;
        info.drv = con.loco_vec.iter().map(|l| l.electric_drivetrain().map(|e| e.pwr_out_max.value).unwrap_or(0.0)).sum();
        info.unit_lims = con.loco_vec.iter().map(|l| (l.state.pwr_out_max.value, l.state.pwr_regen_max.value)).collect();
        info.demand = match demand {
            Ok(d) => cdemand_value(d, info.m, info.r, info.drv, info.b),
            Err(w) => w,
        };
        con.solve_energy_consumption(info.demand * uc::W, dt * uc::S, eng_cmd(eng)).map_err(|e| format!("{e:#}"))?;
        con.save_state();
        con.step();
        Ok(())
    });
    match res {
        Ok(Ok(())) => info.accepted = true,
        Ok(Err(e)) => info.err = e,
        Err(p) => {
            info.panicked = true;
            info.err = p;
        }
    }
    info
}

#[derive(Clone)]
pub struct CSnap {
    pub units: Vec<Snap>,
    pub e_fuel: f64,
    pub e_res: f64,
    pub e_out: f64,
    pub e_out_pos: f64,
    pub e_out_neg: f64,
    pub pwr_out: f64,
    pub pwr_fuel: f64,
    pub pwr_reves: f64,
    pub get_fuel: f64,
    pub get_res: f64,
    pub get_loss: f64,
}
pub fn csnap(c: &Consist) -> CSnap {
    CSnap {
        units: c.loco_vec.iter().map(snap).collect(),
        e_fuel: c.state.energy_fuel.value,
        e_res: c.state.energy_res.value,
        e_out: c.state.energy_out.value,
        e_out_pos: c.state.energy_out_pos.value,
        e_out_neg: c.state.energy_out_neg.value,
        pwr_out: c.state.pwr_out.value,
        pwr_fuel: c.state.pwr_fuel.value,
        pwr_reves: c.state.pwr_reves.value,
        get_fuel: c.get_energy_fuel().value,
        get_res: c.get_net_energy_res().value,
        get_loss: c.get_energy_loss().value,
    }
}

fn unit_info(info: &CInfo, i: usize, s: &Snap) -> StepInfo {
    StepInfo { dt: info.dt, demand: s.ed_req, engine_on: Some(true), m: info.unit_lims[i].0, r: info.unit_lims[i].1, drv: s.ed_rating, accepted: true, err: String::new(), panicked: false }
}

pub fn oracle_c10(_p: &CSnap, s: &CSnap, info: &CInfo, res_greedy: bool, checks: &mut u64) -> Fails {
    let mut f: Fails = vec![];
    let req = info.demand;
    let sc = info.drv.max(1.0);
    let band = 1e-9 * sc;
    let pol = if res_greedy { "RESGreedy" } else { "Proportional" };
    let mut t = |f: &mut Fails, ok: bool, key: &str, what: String| {
        *checks += 1;
        if !ok {
            f.push((format!("{key}:{pol}"), format!("{what} (request={req}, dt={}, M={}, R={}, D={}, B={}, unit limits={:?}, unit powers={:?})", info.dt, info.m, info.r, info.drv, info.b, info.unit_lims, s.units.iter().map(|u| u.l_out).collect::<Vec<_>>())));
        }
    };
    let sum: f64 = s.units.iter().map(|u| u.l_out).sum();
    t(&mut f, altrios_core::utils::almost_eq(sum, req, None) || (sum - req).abs() <= band, "split-does-not-sum-to-request@Consist::solve_energy_consumption", format!("sum of unit powers {sum}"));
    let tol = 1e-3;
    let mut conv_sum = 0.0;
    for (i, u) in s.units.iter().enumerate() {
        let (lim, regen) = info.unit_lims[i];
        let up = if u.is_conv { u.fc_out_max } else { u.res_disch_max };
        t(&mut f, u.l_out <= 0.0 || u.l_out <= lim + tol * lim.abs().max(up) + band, "unit-above-its-published-limit@SolvePower", format!("unit {i} assigned {} W, published limit {lim} W", u.l_out));
        t(&mut f, -u.l_out <= u.ed_rating * (1.0 + 1e-9) + band, "unit-braking-beyond-drivetrain-rating@SolvePower", format!("unit {i} assigned {} W, drivetrain rating {}", u.l_out, u.ed_rating));
        if req > 0.0 {
            // input class: the unit itself published a negative traction limit (battery at its SOC floor feeding its
            // auxiliaries) and is assigned exactly that limit -- anything else is a different failure
            let class = if !u.is_conv && lim < 0.0 && u.l_out >= lim * (1.0 + 1e-9) - band { "unit-published-negative-limit" } else { "other" };
            t(&mut f, u.l_out >= -band, &format!("unit-brakes-while-consist-pushes@SolvePower:{class}"), format!("unit {i} ({}) assigned {} W", if u.is_conv { "conv" } else { "bel" }, u.l_out));
        } else if req < 0.0 {
            t(&mut f, u.l_out <= band, "unit-pushes-while-consist-brakes@SolvePower", format!("unit {i} assigned {} W", u.l_out));
        } else {
            t(&mut f, u.l_out.abs() <= band, "unit-power-at-zero-request@SolvePower", format!("unit {i} assigned {} W", u.l_out));
        }
        // regeneration = negative mechanical propulsion power through the drivetrain
        if u.is_conv {
            t(&mut f, u.ed_mech_out >= -band, "regeneration-on-conventional-unit@SolvePower", format!("unit {i} pwr_mech_prop_out {}", u.ed_mech_out));
            conv_sum += u.l_out;
        } else {
            t(&mut f, -u.ed_mech_out <= regen * (1.0 + 1e-9) + band, "regeneration-above-published-limit@SolvePower", format!("unit {i} regenerates {} W, published pwr_regen_max {regen}", -u.ed_mech_out));
        }
    }
    // braking the consist can regenerate completely (request within the sum of the published regeneration limits):
    // the whole assignment is regeneration, so no unit may be assigned more than its own published regeneration limit
    // and fuel-burning units are assigned nothing
    if req < 0.0 {
        let regen_sum: f64 = info.unit_lims.iter().map(|l| l.1).sum();
        if -req <= regen_sum * (1.0 - 1e-9) - band {
            for (i, u) in s.units.iter().enumerate() {
                let regen = info.unit_lims[i].1;
                if u.is_conv {
                    t(&mut f, u.l_out.abs() <= band, "fuel-burning-unit-brakes-although-batteries-can-regenerate-all@solve_negative_traction", format!("unit {i} assigned {} W", u.l_out));
                } else {
                    t(&mut f, -u.l_out <= regen * (1.0 + 1e-9) + band, "regeneration-assigned-above-published-limit@solve_negative_traction", format!("unit {i} assigned {} W with published pwr_regen_max {regen} W while the consist can regenerate the whole request ({regen_sum} W)", u.l_out));
                }
            }
        }
    }
    if res_greedy && req > 0.0 {
        let want = (req - info.b).max(0.0);
        t(&mut f, close(conv_sum, want, sc) || (conv_sum - want).abs() <= 1e-8 * req.abs(), "battery-first-violated@RESGreedy::solve_positive_traction", format!("fuel-burning units deliver {conv_sum} W, but request - battery capability = {want} W"));
    }
    f
}

pub fn oracle_consist_c01(p: &CSnap, s: &CSnap, info: &CInfo, checks: &mut u64) -> Fails {
    let mut f: Fails = vec![];
    for (i, u) in s.units.iter().enumerate() {
        let ui = unit_info(info, i, u);
        f.extend(oracle_c01(&p.units[i], u, &ui, checks));
    }
    let fuel: f64 = s.units.iter().map(|u| u.fc_e_fuel).sum();
    let chem: f64 = s.units.iter().map(|u| u.res_e_chem).sum();
    let out: f64 = s.units.iter().map(|u| u.l_e_out).sum();
    let sc = info.drv.max(1.0);
    let mut c = |f: &mut Fails, a: f64, b: f64, key: &str| {
        *checks += 1;
        if !close(a, b, sc.max(a.abs())) {
            f.push((format!("{key}:consist"), format!("{key}: consist {a} vs sum over units {b}")));
        }
    };
    c(&mut f, s.e_fuel, fuel, "consist-energy_fuel=sum-units@Consist::solve_energy_consumption");
    c(&mut f, s.e_res, chem, "consist-energy_res=sum-units@Consist::solve_energy_consumption");
    c(&mut f, s.e_out, out, "consist-energy_out=sum-units@Consist::solve_energy_consumption");
    c(&mut f, s.get_fuel, fuel, "get_energy_fuel=sum-units@Consist::get_energy_fuel");
    c(&mut f, s.get_res, chem, "get_net_energy_res=sum-units@Consist::get_net_energy_res");
    c(&mut f, s.get_loss, s.units.iter().map(|u| u.l_loss_reported).sum(), "get_energy_loss=sum-units@Consist::get_energy_loss");
    c(&mut f, s.pwr_out, s.units.iter().map(|u| u.l_out).sum(), "consist-pwr_out=sum-units@Consist::solve_energy_consumption");
    c(&mut f, s.pwr_fuel, s.units.iter().map(|u| u.fc_fuel).sum(), "consist-pwr_fuel=sum-units@Consist::solve_energy_consumption");
    c(&mut f, s.pwr_reves, s.units.iter().map(|u| u.res_chem).sum(), "consist-pwr_reves=sum-units@Consist::solve_energy_consumption");
    c(&mut f, s.e_out - p.e_out, s.pwr_out * info.dt, "d-energy_out=pwr*dt@consist");
    c(&mut f, s.e_out_pos - s.e_out_neg, s.e_out, "energy_out_pos-neg=energy_out@consist");
    f
}

pub fn oracle_consist_c09(p: &CSnap, s: &CSnap, info: &CInfo, checks: &mut u64) -> Fails {
    let mut f: Fails = vec![];
    for (i, u) in s.units.iter().enumerate() {
        let ui = unit_info(info, i, u);
        f.extend(oracle_c09(&p.units[i], u, &ui, checks));
    }
    *checks += 2;
    let band = 1e-9 * info.drv.max(1.0);
    if !(s.pwr_out <= info.m * (1.0 + 1e-8) + band || s.pwr_out <= 0.0) {
        f.push(("consist-traction-beyond-published-limit@Consist::solve_energy_consumption:consist".into(), format!("pwr_out={} pwr_out_max={}", s.pwr_out, info.m)));
    }
    if !(-s.pwr_out <= info.drv * (1.0 + 1e-9) + band) {
        f.push(("consist-braking-beyond-dyn-brake-capability@Consist::solve_energy_consumption:consist".into(), format!("pwr_out={} dyn brake max={}", s.pwr_out, info.drv)));
    }
    f
}

fn consist_oracle(which: &str, p: &CSnap, s: &CSnap, info: &CInfo, res_greedy: bool, checks: &mut u64) -> Fails {
    match which {
        "C01" => oracle_consist_c01(p, s, info, checks),
        "C09" => oracle_consist_c09(p, s, info, checks),
        _ => oracle_c10(p, s, info, res_greedy, checks),
    }
}

pub fn run_consist_case(case: &ConsistCase) -> (Consist, Vec<(CInfo, CSnap, CSnap)>) {
    let mut con = build_case_consist(case);
    let mut out = vec![];
    for l in &case.path {
        let p = csnap(&con);
        let info = step_consist(&mut con, Ok(l.demand), DTS[l.dt], l.eng);
        let acc = info.accepted;
        let s = csnap(&con);
        out.push((info, p, s));
        if !acc {
            break;
        }
    }
    (con, out)
}

pub fn validate_consist_walk(case: &ConsistCase, final_con: &Consist, steps: &[(CInfo, CSnap, CSnap)]) -> Result<(), String> {
    let mut time = vec![0.0];
    let mut pwr = vec![0.0];
    let mut t = 0.0;
    for (info, _, _) in steps {
        t += info.dt;
        time.push(t);
        pwr.push(info.demand);
    }
    let n = time.len();
    let pt = PowerTrace::new(time, pwr, vec![Some(true); n]);
    let mut sim = ConsistSimulation::new(build_case_consist(case), pt, None);
    match guarded(|| sim.walk()) {
        Ok(Ok(())) => {
            if &sim.loco_con == final_con {
                Ok(())
            } else {
                Err("ConsistSimulation::walk ends in a different state than the incrementally explored consist".into())
            }
        }
        Ok(Err(e)) => Err(format!("walk failed where the explorer accepted every step: {e:#}")),
        Err(p) => Err(format!("walk panicked: {p}")),
    }
}

/// compositions: all ordered sequences over `kinds` of length 1..=max_n
fn compositions(kinds: &[u8], max_n: usize) -> Vec<Vec<u8>> {
    let mut out: Vec<Vec<u8>> = vec![];
    let mut cur: Vec<Vec<u8>> = vec![vec![]];
    for _ in 0..max_n {
        let mut next = vec![];
        for c in &cur {
            for k in kinds {
                let mut n = c.clone();
                n.push(*k);
                next.push(n);
            }
        }
        out.extend(next.iter().cloned());
        cur = next;
    }
    out
}

pub fn consist_families(tier: Tier) -> Vec<Vec<u8>> {
    let mut v = match tier {
        Tier::Quick => compositions(&[0, 1, 2, 3], 3),
        Tier::Thorough => compositions(&[0, 1, 2, 3, 4, 5], 3),
    };
    // all {conv, BEL}^4
    for c in compositions(&[0, 2], 4) {
        if c.len() == 4 {
            v.push(c);
        }
    }
    // 4-unit mixes with differing ratings / SOC, and representative 5-, 6- and 8-unit consists
    v.push(vec![0, 1, 3, 6]);
    v.push(vec![5, 0, 7, 1]);
    v.push(vec![0, 2, 0, 0, 0]); // the shipped default shape
    v.push(vec![0, 2, 1, 3, 0, 6]);
    v.push(vec![0, 0, 2, 2, 1, 3, 4, 5]);
    v
}

pub fn rule(which: &str, tier: Tier) -> String {
    let (d, l) = cbounds(tier);
    format!(
        "E-SEQ on real Consist objects driven like ConsistSimulation::solve_step: compositions = every ordered sequence of length <= 3 over {} unit variants (conv 3.4 MW, conv 1 MW, BEL mid-SOC, BEL in low derating ramp{}) + all {{conv,BEL}}^4 + five representative 4..8-unit consists, x {{Proportional, RESGreedy}} x {{fresh, initialised, re-marshalled (built all-conventional, then given its composition through set_loco_vec)}}; alphabet = 16 consist-level demands relative to the limits just published ({:?}; B = battery-unit capability) x dt in {{1, 0.25, 4}} s; every sequence of length <= {} (FULL) and every length-{} sequence with <= 1 departure from the default letter (DEV). Oracle ({}) on every accepted step. distinct_nontrivial = distinct behaviour signatures (composition class x policy x traction/regen/regen+dyn/zero x deficit or not x per-unit bound classes).",
        if tier.is_thorough() { 6 } else { 4 },
        if tier.is_thorough() { ", BEL in high ramp, BEL at min SOC" } else { "" },
        CDEMANDS,
        d,
        l,
        which
    )
}

fn cbounds(tier: Tier) -> (usize, usize) {
    match tier {
        Tier::Quick => (2, 12),
        Tier::Thorough => (3, 40),
    }
}

#[derive(Clone)]
struct CNode {
    con: Consist,
    snap: CSnap,
}

fn csignature(kinds: &[u8], res_greedy: bool, s: &CSnap, info: &CInfo) -> String {
    let dir = if info.demand > 0.0 {
        if info.demand > info.b {
            "trac+deficit"
        } else {
            "trac"
        }
    } else if info.demand < 0.0 {
        if -info.demand > info.r {
            "regen+dyn"
        } else {
            "regen"
        }
    } else {
        "zero"
    };
    let mut ub: Vec<String> = s
        .units
        .iter()
        .map(|u| {
            if u.is_conv {
                if u.fc_out_max >= u.fc_rating {
                    "cR".to_string()
                } else {
                    "cr".to_string()
                }
            } else if u.res_disch_max < u.res_rating {
                "bL".to_string()
            } else if u.res_charge_max < u.res_rating {
                "bH".to_string()
            } else {
                "b".to_string()
            }
        })
        .collect();
    ub.sort();
    format!("n={}:{}:{}:{}:dt={}", kinds.len(), if res_greedy { "G" } else { "P" }, dir, ub.join(""), info.dt)
}

pub fn explore(ctx: &mut Ctx, which: &'static str) {
    let (full_d, dev_l) = cbounds(ctx.tier);
    let mut letters: Vec<CLetter> = vec![];
    for dt in 0..3 {
        for d in 0..CDEMANDS.len() {
            letters.push(CLetter { demand: d, dt, eng: 0 });
        }
    }
    if which == "C10" {
        // engine command letters (default dt): the split must still be honoured -- or the step rejected -- when the
        // fuel-burning units are commanded off / left without a command
        for eng in [1u8, 2] {
            for d in 0..CDEMANDS.len() {
                letters.push(CLetter { demand: d, dt: 0, eng });
            }
        }
    }
    for kinds in consist_families(ctx.tier) {
        let units: Vec<LocoCfg> = kinds.iter().map(|k| consist_unit(*k)).collect();
        // large consists: shallower
        let (fd, dl) = if kinds.len() > 4 { (full_d.min(2), dev_l.min(12)) } else { (full_d, dev_l) };
        for res_greedy in [true, false] {
            for (init, remarshal) in [(true, false), (false, false), (true, true)] {
                if !init && kinds.len() > 2 {
                    continue; // the uninitialised root only differs in the first braking step
                }
                if remarshal && (kinds.len() > 3 || kinds.iter().all(|k| *k < 2)) {
                    continue; // re-marshalling only matters when battery units join
                }
                for first in 0..letters.len() {
                    if !ctx.claim() {
                        continue;
                    }
                    let base = ConsistCase { units: units.clone(), res_greedy, init, remarshal, path: vec![] };
                    if first == 0 {
                        ctx.sample(|| serde_json::json!({"unit_kinds": kinds, "res_greedy": res_greedy, "init": init, "remarshal": remarshal, "first_letter": letters[0]}));
                    }
                    let root_con = build_case_consist(&base);
                    let root = CNode { snap: csnap(&root_con), con: root_con };
                    ctx.state();
                    let mut counter = 0u64;
                    for (mode_len, mode_dev) in [(fd, None), (dl, Some(1usize))] {
                        let mut path: Vec<usize> = vec![first];
                        let mut step = |parent: &CNode, a: usize, path: &[usize]| -> Option<CNode> {
                            let l = letters[a];
                            let mut con = parent.con.clone();
                            let info = step_consist(&mut con, Ok(l.demand), DTS[l.dt], l.eng);
                            ctx.transition();
                            ctx.depth(path.len() as u64);
                            let mk_case = |path: &[usize]| ConsistCase { units: units.clone(), res_greedy, init, remarshal, path: path.iter().map(|&i| letters[i]).collect() };
                            if info.panicked {
                                // a panic is neither an accepted step nor an error value
                                let key = format!("panic@consist-step:{}", if res_greedy { "RESGreedy" } else { "Proportional" });
                                if ctx.wants_violation(&key, path.len() as u64) {
                                    ctx.violation(&key, format!("panic: {}", info.err.chars().take(300).collect::<String>()), serde_json::to_value(mk_case(path)).unwrap(), path.len() as u64);
                                } else {
                                    ctx.count_violation_only(&key);
                                }
                                return None;
                            }
                            if !info.accepted {
                                ctx.stats.rejected += 1;
                                let e = info.err.lines().last().unwrap_or("").chars().take(50).collect::<String>();
                                ctx.sig(&format!("rejected:{}:{}", CDEMANDS[l.demand], e));
                                return None;
                            }
                            let s = csnap(&con);
                            let mut checks = 0u64;
                            let fails = consist_oracle(which, &parent.snap, &s, &info, res_greedy, &mut checks);
                            ctx.checks(checks);
                            ctx.state();
                            ctx.sig(&csignature(&kinds, res_greedy, &s, &info));
                            for (k, w) in fails {
                                if ctx.wants_violation(&k, path.len() as u64) {
                                    ctx.violation(&k, w, serde_json::to_value(mk_case(path)).unwrap(), path.len() as u64);
                                } else {
                                    ctx.count_violation_only(&k);
                                }
                            }
                            counter += 1;
                            if counter % 101 == 0 {
                                let case = mk_case(path);
                                let (fc, steps) = run_consist_case(&case);
                                // ConsistSimulation always commands the engines on: only such traces can be bound to walk()
                                if steps.iter().all(|x| x.0.accepted) && case.path.iter().all(|l| l.eng == 0) {
                                    match validate_consist_walk(&case, &fc, &steps) {
                                        Ok(()) => {
                                            if fc == con {
                                                ctx.validated()
                                            } else {
                                                ctx.machinery_error(format!("straight-line replay differs from explored consist for {:?}", case))
                                            }
                                        }
                                        Err(e) => ctx.machinery_error(format!("{e} for {:?}", case)),
                                    }
                                }
                            }
                            Some(CNode { con, snap: s })
                        };
                        if let Some(child) = step(&root, first, &path.clone()) {
                            dfs(&child, mode_len, mode_dev, letters.len(), &mut path, &mut step);
                        }
                    }
                    if ctx.out_of_time() {
                        break;
                    }
                }
            }
        }
    }
}

pub fn replay(which: &str, case: &Value) -> ReplayOutcome {
    let c: ConsistCase = match serde_json::from_value(case.clone()) {
        Ok(c) => c,
        Err(e) => return ReplayOutcome { violations: vec![("bad-replay-file".into(), e.to_string())], observation: String::new() },
    };
    let (fc, steps) = run_consist_case(&c);
    let mut v = vec![];
    let mut checks = 0;
    for (info, p, s) in &steps {
        if info.panicked {
            v.push((format!("panic@consist-step:{}", if c.res_greedy { "RESGreedy" } else { "Proportional" }), info.err.clone()));
        } else if info.accepted {
            v.extend(consist_oracle(which, p, s, info, c.res_greedy, &mut checks));
        }
    }
    let obs = format!("demands={:?} accepted={:?} unit powers={:?}", steps.iter().map(|x| x.0.demand).collect::<Vec<_>>(), steps.iter().map(|x| x.0.accepted).collect::<Vec<_>>(), fc.loco_vec.iter().map(|l| l.state.pwr_out.value).collect::<Vec<_>>());
    ReplayOutcome { violations: v, observation: obs }
}
