//! One module per property (or group of properties sharing one exploration).
use crate::engine::Prop;

pub mod c02_c13;

pub fn get(id: &str) -> Option<Box<dyn Prop>> {
    match id {
        "C02" => Some(Box::new(c02_c13::C02C13 { which: "C02" })),
        "C13" => Some(Box::new(c02_c13::C02C13 { which: "C13" })),
        _ => None,
    }
}
