//! One module per property (or group of properties sharing one exploration).
use crate::engine::Prop;

pub mod c02_c13;
pub mod c06;
pub mod c15;
pub mod c16;
pub mod c17;
pub mod c18;
pub mod c19;
pub mod c20;
pub mod consist_lab;
pub mod dispatch_lab;
pub mod pt_props;
pub mod ptlab;
pub mod res_lab;
pub mod setspeed_lab;
pub mod speedlimit_lab;
pub mod train_props;

pub fn get(id: &str) -> Option<Box<dyn Prop>> {
    match id {
        "C02" => Some(Box::new(c02_c13::C02C13 { which: "C02" })),
        "C13" => Some(Box::new(c02_c13::C02C13 { which: "C13" })),
        "C01" => Some(Box::new(pt_props::PtProp { which: "C01" })),
        "C08" => Some(Box::new(pt_props::PtProp { which: "C08" })),
        "C09" => Some(Box::new(pt_props::PtProp { which: "C09" })),
        "C10" => Some(Box::new(pt_props::C10)),
        "C16" => Some(Box::new(c16::C16)),
        "C06" => Some(Box::new(c06::C06)),
        "C03" | "C07" | "C11" | "C12" | "C14" => Some(Box::new(train_props::TrainProp { which: match id { "C03" => "C03", "C07" => "C07", "C11" => "C11", "C12" => "C12", _ => "C14" } })),
        "C04" => Some(Box::new(dispatch_lab::DispatchProp { which: "C04" })),
        "C05" => Some(Box::new(dispatch_lab::DispatchProp { which: "C05" })),
        "C15" => Some(Box::new(c15::C15)),
        "C19" => Some(Box::new(c19::C19)),
        "C20" => Some(Box::new(c20::C20)),
        "C17" => Some(Box::new(c17::C17)),
        "C18" => Some(Box::new(c18::C18)),
        _ => None,
    }
}
