//! C16: network validation accepts exactly the consistent networks and never aborts.
//! Fault enumeration: every valid network of the family x every single-fault mutation at every link,
//! through `Network::from_json`, `from_yaml`, `ObjState::validate` (and `from_file` for yaml/json);
//! oracle = independent reference validity predicate written from the documented rules.

use crate::domain::net::*;
use crate::engine::{guarded, Ctx, Prop, ReplayOutcome, Tier};
use altrios_core::track::{CatPowerLimit, Elev, Heading, Link, Network, SpeedLimit, SpeedSet, TrainType};
use altrios_core::traits::SerdeAPI;
use altrios_core::uc;
use altrios_core::validate::ObjState;
use serde::{Deserialize, Serialize};
use serde_json::Value;

// ------------------------------------------------------------------ reference validity predicate
fn ok_nonneg(x: f64) -> bool {
    x >= 0.0 // false for NaN
}

fn ref_speed_set_valid(s: &SpeedSet, errs: &mut Vec<String>) {
    if s.speed_limits.is_empty() {
        errs.push("speed set without limits".into());
        return;
    }
    for l in &s.speed_limits {
        if !ok_nonneg(l.offset_start.value) || !ok_nonneg(l.offset_end.value) || l.speed.value.is_nan() {
            errs.push("speed limit field not a non-negative number".into());
        }
        if !(l.offset_start.value <= l.offset_end.value) {
            errs.push("speed limit end before start".into());
        }
    }
    for w in s.speed_limits.windows(2) {
        if w[0].offset_start == w[1].offset_start && w[0].offset_end == w[1].offset_end {
            errs.push("duplicate speed limit offset pair".into());
        }
        let a = (w[0].offset_start.value, w[0].offset_end.value, w[0].speed.value);
        let b = (w[1].offset_start.value, w[1].offset_end.value, w[1].speed.value);
        if !(a <= b) {
            errs.push("speed limits unsorted".into());
        }
    }
    for p in &s.speed_params {
        if !ok_nonneg(p.limit_val) {
            errs.push("speed param negative".into());
        }
    }
    for w in s.speed_params.windows(2) {
        if w[0] == w[1] {
            errs.push("duplicate speed param".into());
        }
    }
}

fn ref_profile<T>(pts: &[T], off: impl Fn(&T) -> f64, length: f64, name: &str, errs: &mut Vec<String>) {
    if pts.len() < 2 {
        errs.push(format!("{name}: fewer than two points"));
        return;
    }
    for p in pts {
        if !ok_nonneg(off(p)) {
            errs.push(format!("{name}: offset not a non-negative number"));
        }
    }
    if !pts.windows(2).all(|w| off(&w[0]) < off(&w[1])) {
        errs.push(format!("{name}: offsets unsorted or duplicate"));
    }
    if off(&pts[0]) != 0.0 {
        errs.push(format!("{name}: does not start at 0"));
    }
    if off(&pts[pts.len() - 1]) != length {
        errs.push(format!("{name}: does not end at length"));
    }
}

/// returns the list of rule violations (empty = valid). Written from the documented rules.
pub fn ref_validate(net: &[Link]) -> Vec<String> {
    let mut e: Vec<String> = vec![];
    if net.len() < 2 {
        e.push("fewer than two links".into());
        return e;
    }
    // dummy first entry
    let d = &net[0];
    if d.idx_curr.idx() != 0
        || d.idx_flip.idx() != 0
        || d.idx_next.idx() != 0
        || d.idx_next_alt.idx() != 0
        || d.idx_prev.idx() != 0
        || d.idx_prev_alt.idx() != 0
        || d.length.value != 0.0
        || !d.elevs.is_empty()
        || !d.headings.is_empty()
        || !d.speed_sets.is_empty()
        || d.speed_set.as_ref().map(|s| !s.speed_limits.is_empty() || !s.speed_params.is_empty() || s.is_head_end).unwrap_or(false)
        || !d.cat_power_limits.is_empty()
    {
        e.push("first entry is not the dummy link".into());
    }
    let n = net.len();
    let in_range = |i: usize| i < n;
    for (pos, l) in net.iter().enumerate().skip(1) {
        let tag = format!("link {pos}");
        if l.idx_curr.idx() != pos {
            e.push(format!("{tag}: idx_curr != position"));
        }
        if !(l.length.value > 0.0) {
            e.push(format!("{tag}: length not > 0"));
        }
        // elevations
        ref_profile(&l.elevs, |p: &Elev| p.offset.value, l.length.value, &format!("{tag} elevs"), &mut e);
        if l.elevs.iter().any(|p| !p.elev.value.is_finite()) {
            e.push(format!("{tag}: elevation not finite"));
        }
        // headings (optional)
        if !l.headings.is_empty() {
            ref_profile(&l.headings, |p: &Heading| p.offset.value, l.length.value, &format!("{tag} headings"), &mut e);
            if l.headings.iter().any(|h| !(h.heading.value >= 0.0) || !(h.heading.value < 2.0 * std::f64::consts::PI)) {
                e.push(format!("{tag}: heading outside [0, 2pi)"));
            }
        }
        // speed: exactly one of speed_sets / speed_set
        match (&l.speed_set, l.speed_sets.is_empty()) {
            (Some(_), false) => e.push(format!("{tag}: both speed_set and speed_sets")),
            (None, true) => e.push(format!("{tag}: neither speed_set nor speed_sets")),
            (Some(s), true) => ref_speed_set_valid(s, &mut e),
            (None, false) => {
                for s in l.speed_sets.values() {
                    ref_speed_set_valid(s, &mut e);
                }
            }
        }
        // catenary: well-formed, inside the link, non-overlapping
        for c in &l.cat_power_limits {
            if !ok_nonneg(c.offset_start.value) || !ok_nonneg(c.offset_end.value) || !ok_nonneg(c.power_limit.value) {
                e.push(format!("{tag}: catenary field not a non-negative number"));
            }
            if !(c.offset_start.value <= c.offset_end.value) {
                e.push(format!("{tag}: catenary end before start"));
            }
        }
        for w in l.cat_power_limits.windows(2) {
            if !(w[0].offset_end.value <= w[1].offset_start.value) {
                e.push(format!("{tag}: catenary sections overlap or unsorted"));
            }
        }
        if let (Some(f), Some(la)) = (l.cat_power_limits.first(), l.cat_power_limits.last()) {
            if f.offset_start.value < 0.0 || la.offset_end.value > l.length.value {
                e.push(format!("{tag}: catenary outside the link"));
            }
        }
        // references inside the network
        let refs = [l.idx_flip.idx(), l.idx_next.idx(), l.idx_next_alt.idx(), l.idx_prev.idx(), l.idx_prev_alt.idx()];
        if refs.iter().any(|r| !in_range(*r)) {
            e.push(format!("{tag}: reference outside the network"));
            continue;
        }
        // flip
        if l.idx_flip.idx() == pos {
            e.push(format!("{tag}: flip of itself"));
        }
        if l.idx_flip.idx() != 0 {
            if net[l.idx_flip.idx()].idx_flip.idx() != pos {
                e.push(format!("{tag}: flip not reciprocal"));
            }
            for r in [l.idx_next.idx(), l.idx_next_alt.idx(), l.idx_prev.idx(), l.idx_prev_alt.idx()] {
                if r == l.idx_flip.idx() {
                    e.push(format!("{tag}: flip equals a neighbour"));
                }
            }
        }
        // alternates only with primaries
        if l.idx_next_alt.idx() != 0 && l.idx_next.idx() == 0 {
            e.push(format!("{tag}: next_alt without next"));
        }
        if l.idx_prev_alt.idx() != 0 && l.idx_prev.idx() == 0 {
            e.push(format!("{tag}: prev_alt without prev"));
        }
        // reciprocity + coincident switch points
        for nx in [l.idx_next.idx(), l.idx_next_alt.idx()] {
            if nx != 0 && l.idx_next.idx() != 0 {
                let t = &net[nx];
                if t.idx_prev.idx() != pos && t.idx_prev_alt.idx() != pos {
                    e.push(format!("{tag}: next {nx} does not point back"));
                }
                if l.idx_next_alt.idx() != 0 && t.idx_prev_alt.idx() != 0 {
                    e.push(format!("{tag}: coincident switch points with {nx}"));
                }
            }
        }
        for pv in [l.idx_prev.idx(), l.idx_prev_alt.idx()] {
            if pv != 0 && l.idx_prev.idx() != 0 {
                let t = &net[pv];
                if t.idx_next.idx() != pos && t.idx_next_alt.idx() != pos {
                    e.push(format!("{tag}: prev {pv} does not point back"));
                }
                if l.idx_prev_alt.idx() != 0 && t.idx_next_alt.idx() != 0 {
                    e.push(format!("{tag}: coincident switch points with {pv}"));
                }
            }
        }
    }
    e
}

// ------------------------------------------------------------------ base networks + mutations
#[derive(Debug, Clone, Serialize, Deserialize, PartialEq)]
pub struct Case {
    pub base: usize,
    pub link: usize,
    pub field: String,
    pub variant: usize,
    /// thorough tier: a second mutation (link, field, variant) applied after the first one
    #[serde(default)]
    pub second: Option<(usize, String, usize)>,
}

pub fn base_networks() -> Vec<(String, Network)> {
    let mut v = vec![];
    let feat = |f: &mut FwdLink, k: usize| {
        let len = f.length_m;
        match k % 4 {
            0 => {}
            1 => {
                f.elevs = vec![(0.0, 0.0), (len * 0.5, 5.0), (len, 0.0)];
                f.headings = vec![(0.0, 0.1), (len, 0.3)];
            }
            2 => {
                f.elevs = vec![(0.0, 0.0), (len * 0.25, 2.0), (len * 0.5, 1.0), (len, 0.0)];
                f.headings = vec![(0.0, 6.2), (len * 0.5, 0.1), (len, 0.2)];
                f.cat = vec![(0.0, len * 0.4, 5.0e6)];
                f.speed_limits = vec![(0.0, len, 20.0), (len * 0.2, len * 0.6, 10.0)];
            }
            _ => {
                f.cat = vec![(0.0, len * 0.3, 5.0e6), (len * 0.5, len, 3.0e6)];
                f.speed_limits = vec![(0.0, len * 0.5, 20.0), (len * 0.5, len, 15.0)];
            }
        }
    };
    for (name, mut t, flips, style) in [
        ("line1-noflip", line_topology(&[1000.0], 20.0), false, SetStyle::Single),
        ("line2", line_topology(&[1000.0, 500.0], 20.0), true, SetStyle::Map),
        ("line3-features", line_topology(&[1000.0, 150.0, 4000.0], 20.0), true, SetStyle::Single),
        ("siding", siding_topology(1000.0, 500.0, 600.0, 1000.0, 20.0), true, SetStyle::Map),
        ("y-merge", y_merge_topology(1000.0, 800.0, 1000.0, 20.0), true, SetStyle::Single),
    ] {
        let with_features = name != "line2";
        if with_features {
            for (k, f) in t.iter_mut().enumerate() {
                feat(f, k + 1);
            }
        }
        v.push((name.to_string(), build_topology(&t, flips, style)));
    }
    v
}

const IDX_FIELDS: [&str; 6] = ["idx_curr", "idx_flip", "idx_next", "idx_next_alt", "idx_prev", "idx_prev_alt"];
const BAD_F: [f64; 4] = [f64::NAN, f64::INFINITY, f64::NEG_INFINITY, -1.0];

/// every mutation site for a network: (link, field, number of variants)
pub fn mutation_sites(net: &Network) -> Vec<(usize, String, usize)> {
    let n = net.0.len();
    let mut v = vec![];
    for li in 0..n {
        for f in IDX_FIELDS {
            v.push((li, f.to_string(), n + 3)); // every index 0..n-1, then n, n+7, u32::MAX
        }
        for f in ["length", "elevs", "headings", "speed", "cat", "lockout"] {
            let k = match f {
                "length" => 5,
                "elevs" => 14,
                "headings" => 14,
                "speed" => 16,
                "cat" => 12,
                _ => 3,
            };
            v.push((li, f.to_string(), k));
        }
    }
    v
}

fn mutate_points<T: Clone>(pts: &mut Vec<T>, variant: usize, set_off: impl Fn(&mut T, f64), get_off: impl Fn(&T) -> f64, set_val: impl Fn(&mut T, f64), proto: impl Fn(f64, f64) -> T, length: f64) -> bool {
    match variant {
        0 => {
            if pts.is_empty() {
                return false;
            }
            pts.remove(0);
        }
        1 => {
            if pts.is_empty() {
                return false;
            }
            pts.pop();
        }
        2 => {
            if pts.is_empty() {
                return false;
            }
            let o = get_off(&pts[0]);
            set_off(&mut pts[0], o + 1.0);
        }
        3 => {
            if pts.is_empty() {
                return false;
            }
            let k = pts.len() - 1;
            let o = get_off(&pts[k]);
            set_off(&mut pts[k], o + 1.0);
        }
        4 => {
            if pts.len() < 2 {
                return false;
            }
            let k = pts.len() - 1;
            pts.swap(0, k);
        }
        5 => {
            if pts.len() < 2 {
                return false;
            }
            let o = get_off(&pts[0]);
            set_off(&mut pts[1], o);
        }
        6 | 7 | 8 | 9 => {
            if pts.is_empty() {
                return false;
            }
            let k = pts.len() / 2;
            set_off(&mut pts[k], BAD_F[variant - 6]);
        }
        10 | 11 => {
            if pts.is_empty() {
                return false;
            }
            let k = pts.len() / 2;
            set_val(&mut pts[k], BAD_F[variant - 10]);
        }
        12 => {
            pts.clear();
        }
        _ => {
            // a single point / add a point when absent
            if pts.is_empty() {
                pts.push(proto(0.0, 0.0));
                pts.push(proto(length, 0.0));
            } else {
                pts.truncate(1);
            }
        }
    }
    true
}

/// apply one mutation; false = not applicable at this site (skipped, not counted)
pub fn apply(net: &mut Network, c: &Case) -> bool {
    let n = net.0.len();
    let l = &mut net.0[c.link];
    let idx_val = |v: usize| -> u32 {
        if v < n {
            v as u32
        } else if v == n {
            n as u32
        } else if v == n + 1 {
            (n + 7) as u32
        } else {
            u32::MAX
        }
    };
    match c.field.as_str() {
        "idx_curr" | "idx_flip" | "idx_next" | "idx_next_alt" | "idx_prev" | "idx_prev_alt" => {
            let newv = lidx(idx_val(c.variant) as usize);
            let slot = match c.field.as_str() {
                "idx_curr" => &mut l.idx_curr,
                "idx_flip" => &mut l.idx_flip,
                "idx_next" => &mut l.idx_next,
                "idx_next_alt" => &mut l.idx_next_alt,
                "idx_prev" => &mut l.idx_prev,
                _ => &mut l.idx_prev_alt,
            };
            if *slot == newv {
                return false;
            }
            *slot = newv;
            true
        }
        "length" => {
            let v = [0.0, f64::NAN, f64::INFINITY, -1.0, l.length.value + 1.0][c.variant];
            if c.link == 0 && c.variant == 0 {
                return false;
            }
            l.length = v * uc::M;
            true
        }
        "elevs" => {
            let len = l.length.value;
            mutate_points(&mut l.elevs, c.variant, |p, o| p.offset = o * uc::M, |p| p.offset.value, |p, v| p.elev = v * uc::M, |o, v| Elev { offset: o * uc::M, elev: v * uc::M }, len)
        }
        "headings" => {
            let len = l.length.value;
            if c.variant == 11 {
                // heading value: a full revolution (invalid) instead of infinity
                if l.headings.is_empty() {
                    return false;
                }
                let k = l.headings.len() / 2;
                l.headings[k].heading = 6.3 * uc::RAD;
                return true;
            }
            mutate_points(&mut l.headings, c.variant, |p, o| p.offset = o * uc::M, |p| p.offset.value, |p, v| p.heading = v * uc::RAD, |o, v| Heading { offset: o * uc::M, heading: v * uc::RAD, lat: None, lon: None }, len)
        }
        "speed" => {
            // operate on whichever representation is present
            let style_single = l.speed_set.is_some();
            let mut ss: SpeedSet = if style_single { l.speed_set.clone().unwrap() } else { l.speed_sets.get(&TrainType::Freight).cloned().unwrap_or_default() };
            let len = l.length.value;
            let mut both = false;
            let mut neither = false;
            match c.variant {
                0 => {
                    if ss.speed_limits.is_empty() {
                        return false;
                    }
                    let s = ss.speed_limits[0].offset_start;
                    ss.speed_limits[0].offset_start = ss.speed_limits[0].offset_end + uc::M;
                    ss.speed_limits[0].offset_end = s;
                }
                1 => {
                    if ss.speed_limits.len() < 2 {
                        return false;
                    }
                    ss.speed_limits.swap(0, 1);
                }
                2 => {
                    if ss.speed_limits.is_empty() {
                        return false;
                    }
                    let mut d = ss.speed_limits[0];
                    d.speed = d.speed + uc::MPS;
                    ss.speed_limits.insert(1, d);
                }
                3 | 4 => {
                    if ss.speed_limits.is_empty() {
                        return false;
                    }
                    ss.speed_limits[0].speed = [f64::NAN, f64::INFINITY][c.variant - 3] * uc::MPS;
                }
                5 | 6 | 7 | 8 => {
                    if ss.speed_limits.is_empty() {
                        return false;
                    }
                    ss.speed_limits[0].offset_start = BAD_F[c.variant - 5] * uc::M;
                }
                9 | 10 => {
                    if ss.speed_limits.is_empty() {
                        return false;
                    }
                    let k = ss.speed_limits.len() - 1;
                    ss.speed_limits[k].offset_end = [f64::NAN, -1.0][c.variant - 9] * uc::M;
                }
                11 => {
                    if ss.speed_limits.is_empty() && c.link != 0 {
                        return false;
                    }
                    ss.speed_limits.clear();
                    ss.speed_params.clear();
                    ss.is_head_end = false;
                }
                12 => both = true,
                13 => neither = true,
                14 => {
                    // a valid extra restriction appended in order (must stay valid)
                    if c.link == 0 {
                        return false;
                    }
                    ss.speed_limits.push(SpeedLimit { offset_start: len * 0.9 * uc::M, offset_end: len * uc::M, speed: 7.0 * uc::MPS });
                    ss.speed_limits.sort_by(|a, b| a.partial_cmp(b).unwrap());
                }
                _ => {
                    // a restriction reaching beyond the link end: not forbidden by the documented rules
                    if ss.speed_limits.is_empty() {
                        return false;
                    }
                    let k = ss.speed_limits.len() - 1;
                    ss.speed_limits[k].offset_end = (len + 50.0) * uc::M;
                }
            }
            if both {
                if c.link == 0 {
                    return false;
                }
                l.speed_set = Some(ss.clone());
                l.speed_sets.insert(TrainType::Freight, ss);
            } else if neither {
                if c.link == 0 {
                    return false;
                }
                l.speed_set = None;
                l.speed_sets.clear();
            } else if style_single || c.link == 0 {
                l.speed_set = Some(ss);
            } else {
                l.speed_sets.insert(TrainType::Freight, ss);
            }
            true
        }
        "cat" => {
            let len = if l.length.value > 0.0 { l.length.value } else { 100.0 };
            let cp = &mut l.cat_power_limits;
            let mk = |s: f64, e: f64, p: f64| CatPowerLimit { offset_start: s * uc::M, offset_end: e * uc::M, power_limit: p * uc::W, district_id: None };
            match c.variant {
                0 => {
                    // one well-formed section (valid on a real link)
                    *cp = vec![mk(0.0, len * 0.5, 1.0e6)];
                }
                1 => {
                    // two disjoint sections (valid)
                    *cp = vec![mk(0.0, len * 0.3, 1.0e6), mk(len * 0.6, len, 2.0e6)];
                }
                2 => {
                    // two abutting sections (valid: they share only an end point)
                    *cp = vec![mk(0.0, len * 0.5, 1.0e6), mk(len * 0.5, len, 2.0e6)];
                }
                3 => {
                    // overlapping (invalid)
                    *cp = vec![mk(0.0, len * 0.6, 1.0e6), mk(len * 0.4, len, 2.0e6)];
                }
                4 => {
                    *cp = vec![mk(len * 0.5, len * 0.2, 1.0e6)];
                }
                5 => {
                    *cp = vec![mk(0.0, len * 0.5, -1.0)];
                }
                6 => {
                    *cp = vec![mk(0.0, len * 0.5, f64::NAN)];
                }
                7 => {
                    *cp = vec![mk(0.0, len + 10.0, 1.0e6)];
                }
                8 => {
                    *cp = vec![mk(-5.0, len * 0.5, 1.0e6)];
                }
                9 => {
                    *cp = vec![mk(f64::NAN, len * 0.5, 1.0e6)];
                }
                10 => {
                    // three disjoint sections (valid)
                    *cp = vec![mk(0.0, len * 0.2, 1.0e6), mk(len * 0.3, len * 0.5, 1.0e6), mk(len * 0.7, len, 1.0e6)];
                }
                _ => {
                    // unsorted disjoint sections (overlap rule is stated on consecutive sections: invalid)
                    *cp = vec![mk(len * 0.6, len, 2.0e6), mk(0.0, len * 0.3, 1.0e6)];
                }
            }
            true
        }
        _ => {
            // lockout references: not covered by a documented validation rule; in-range values only
            if c.link == 0 {
                return false;
            }
            match c.variant {
                0 => l.link_idxs_lockout = vec![lidx(1)],
                1 => l.link_idxs_lockout = vec![],
                _ => l.link_idxs_lockout = vec![lidx(n - 1)],
            }
            true
        }
    }
}

pub struct Observed {
    pub ref_errors: Vec<String>,
    /// per entry point: Ok(accepted) or Err(panic message)
    pub validate: Result<bool, String>,
    pub json: Result<bool, String>,
    pub yaml: Result<bool, String>,
    pub json_err: String,
}

fn has_nonfinite(net: &Network) -> bool {
    // JSON writes non-finite numbers as null, which the typed reader rejects: treated as "rejected"
    let v = serde_json::to_string(net).unwrap_or_default();
    v.contains("null") && {
        // osm_id is skipped when None; speed_set None and district_id None are legitimately null
        let mut n2 = net.clone();
        for l in n2.0.iter_mut() {
            l.speed_set = l.speed_set.take();
        }
        let cnt_null = v.matches("null").count();
        let legit = net.0.iter().map(|l| (l.speed_set.is_none() as usize) + l.cat_power_limits.iter().filter(|c| c.district_id.is_none()).count()).sum::<usize>();
        cnt_null > legit
    }
}

pub fn observe(net: &Network) -> Observed {
    let ref_errors = ref_validate(&net.0);
    let validate = guarded(|| net.validate().is_ok());
    let js = serde_json::to_string(net);
    let json = match &js {
        Ok(js) => guarded(|| Network::from_json(js).map(|_| true).unwrap_or(false)),
        Err(e) => Err(format!("serialize: {e}")),
    };
    let ys = serde_yaml::to_string(net);
    let yaml = match &ys {
        Ok(ys) => guarded(|| Network::from_yaml(ys).map(|_| true).unwrap_or(false)),
        Err(e) => Err(format!("serialize: {e}")),
    };
    Observed { ref_errors, validate, json, yaml, json_err: String::new() }
}

pub fn judge(net: &Network, o: &Observed, class: &str) -> Vec<(String, String)> {
    let mut v = vec![];
    let ref_valid = o.ref_errors.is_empty();
    let nonfinite = has_nonfinite(net);
    for (name, r) in [("validate", &o.validate), ("from_json", &o.json), ("from_yaml", &o.yaml)] {
        match r {
            Err(p) => v.push((format!("panic@Network::{name}:{class}"), format!("panic instead of an error value: {}", p.chars().take(200).collect::<String>()))),
            Ok(acc) => {
                let expect = if name == "from_json" && nonfinite { false } else { ref_valid };
                if *acc && !expect {
                    v.push((format!("inconsistent-network-accepted@Network::{name}:{class}"), format!("accepted although: {:?}", o.ref_errors)));
                }
                if !*acc && expect {
                    v.push((format!("consistent-network-rejected@Network::{name}:{class}"), "rejected although every documented rule holds".to_string()));
                }
            }
        }
    }
    v
}

/// the same network written in the legacy file layout must get the same verdict
fn legacy_judge(net: &Network, o: &Observed, class: &str) -> Vec<(String, String)> {
    let mut v = vec![];
    let ref_valid = o.ref_errors.is_empty() && !has_nonfinite(net);
    // a link without any speed set cannot be told apart from "neither" in the legacy layout: same expectation
    match legacy_load(net, "m") {
        None => {}
        Some(Err(p)) => v.push((format!("panic@Network::from_file:legacy:{class}"), p.chars().take(200).collect())),
        Some(Ok(Ok(_))) => {
            if !ref_valid {
                v.push((format!("inconsistent-network-accepted@Network::from_file:legacy:{class}"), format!("legacy-layout file accepted although: {:?}", o.ref_errors)));
            }
        }
        Some(Ok(Err(_))) => {
            if ref_valid {
                v.push((format!("consistent-network-rejected@Network::from_file:legacy:{class}"), "legacy-layout file rejected although every documented rule holds".into()));
            }
        }
    }
    v
}


/// TEXT-level faults (not expressible in memory, where a link index is a u32): an index field of the network FILE
/// holds a number outside the u32 range.  variant 0: v + 2^32 (would wrap to the original, consistent value),
/// 1: 2^32 (would wrap to "none"), 2: v + 2^33, 3: -1.  Such a file refers outside the network and must be refused.
const TEXT_FIELDS: [&str; 6] = ["idx_next", "idx_next_alt", "idx_prev", "idx_prev_alt", "idx_curr", "idx_flip"];
fn text_fault(net: &Network, link: usize, field: &str, variant: usize) -> Option<(Value, i128)> {
    let mut tree = serde_json::to_value(net).ok()?;
    let slot = tree.get_mut(link)?.get_mut(field)?;
    let v = slot.as_u64()? as i128;
    let new: i128 = match variant {
        0 => v + (1i128 << 32),
        1 => 1i128 << 32,
        2 => v + (1i128 << 33),
        _ => -1,
    };
    *slot = if new < 0 { serde_json::json!(new as i64) } else { serde_json::json!(new as u64) };
    Some((tree, new))
}
fn text_judge(tree: &Value, field: &str, new: i128) -> Vec<(String, String)> {
    use altrios_core::traits::SerdeAPI;
    let mut f = vec![];
    let js = tree.to_string();
    let ys = serde_yaml::to_string(tree).unwrap_or_default();
    for (name, r) in [("from_json", guarded(|| Network::from_json(&js).map(|_| ()).map_err(|e| format!("{e:#}")))), ("from_yaml", guarded(|| Network::from_yaml(&ys).map(|_| ()).map_err(|e| format!("{e:#}"))))] {
        match r {
            Ok(Ok(())) => f.push((format!("inconsistent-network-accepted@Network::{name}:text:{field}:outside-u32"), format!("a network file whose {field} is {new} (outside the index range) was accepted"))),
            Ok(Err(_)) => {}
            Err(p) => f.push((format!("panic@Network::{name}:text:{field}:outside-u32"), p.chars().take(200).collect())),
        }
    }
    f
}

fn class_of(c: &Case, n: usize) -> String {
    if IDX_FIELDS.contains(&c.field.as_str()) {
        if c.variant >= n {
            format!("{}:out-of-range", c.field)
        } else {
            format!("{}:in-range", c.field)
        }
    } else if c.field == "cat" {
        format!("cat:{}", ["one", "two-disjoint", "abutting", "overlapping", "end<start", "neg-power", "nan-power", "beyond-length", "neg-offset", "nan-offset", "three-disjoint", "unsorted"][c.variant])
    } else {
        format!("{}:{}", c.field, c.variant)
    }
}

pub struct C16;

impl Prop for C16 {
    fn id(&self) -> &'static str {
        "C16"
    }
    fn level(&self) -> &'static str {
        "fault_enumeration"
    }
    fn rule(&self, tier: Tier) -> String {
        let pairs = if tier.is_thorough() { " PLUS every PAIR of such mutations (any two sites, any two variants; pairs whose second mutation cannot be applied to the already damaged link are skipped) on the bases line2 and line3-features, judged the same way (states = mutated networks judged)." } else { "" };
        format!("{}{}", "fault enumeration: 5 valid base networks (line x1/x2/x3, passing siding, Y merge; with/without flips, speed_set and speed_sets styles, 2..4 elevation points, optional/wrap-around headings, 0..2 catenary sections) x EVERY single mutation at EVERY link incl. the dummy: each index field set to every in-range index and to len, len+7, u32::MAX; length in {0, NaN, inf, -1, +1}; 14 elevation and 14 heading faults (drop first/last, shift ends, swap, duplicate, NaN/inf/-inf/-1 offsets, NaN/inf values, empty, single point); 16 speed faults (end<start, unsorted, duplicate pair, NaN/inf speed, bad offsets, empty, both/neither representation, plus two mutations that must stay valid); 12 catenary shapes (valid: one/two disjoint/abutting/three disjoint; invalid: overlapping, unsorted, end<start, negative/NaN power, outside the link); through ObjState::validate, Network::from_json and Network::from_yaml (from_file yaml/json for the base networks; the LEGACY file layout for the base networks and for every mutation of the speed_sets-style networks). Oracle: accept <=> independent reference predicate; a panic is a violation. distinct_nontrivial = distinct (mutation class, expected verdict) pairs.", pairs)
    }
    fn assumptions(&self) -> Vec<String> {
        vec![
            "the reference predicate encodes the documented rules (DESIGN C16); lockout references and restrictions reaching beyond the link end are not covered by a documented rule and are expected to be accepted".into(),
            "JSON cannot carry NaN/inf (written as null): such networks are expected to be rejected by from_json whatever the rule says".into(),
        ]
    }
    fn explore(&self, ctx: &mut Ctx) {
        let bases = base_networks();
        for (bi, (bname, net)) in bases.iter().enumerate() {
            // the unmutated base network: valid, all loaders agree, file and legacy layouts
            if ctx.claim() {
                let o = observe(net);
                ctx.evaluation();
                ctx.checks(3);
                ctx.sig(&format!("base:{bname}:valid={}", o.ref_errors.is_empty()));
                for (k, w) in judge(net, &o, "base") {
                    ctx.violation(&k, w, serde_json::json!({"base": bi, "link": 0, "field": "none", "variant": 0}), 0);
                }
                for (k, w) in file_and_legacy(net) {
                    ctx.violation(&k, w, serde_json::json!({"base": bi, "link": 0, "field": "none", "variant": 0}), 0);
                }
                ctx.checks(3);
            }
            for (li, field, nvar) in mutation_sites(net) {
                if !ctx.claim() {
                    continue;
                }
                for variant in 0..nvar {
                    let c = Case { base: bi, link: li, field: field.clone(), variant, second: None };
                    let mut m = net.clone();
                    if !apply(&mut m, &c) {
                        continue;
                    }
                    ctx.describe(&serde_json::to_value(&c).unwrap());
                    let o = observe(&m);
                    ctx.evaluation();
                    ctx.state();
                    ctx.transition();
                    ctx.checks(3);
                    let class = class_of(&c, net.0.len());
                    ctx.sig(&format!("{}:{}", class, if o.ref_errors.is_empty() { "valid" } else { "invalid" }));
                    ctx.sample(|| serde_json::json!({"base": bname, "mutation": c, "reference_says": o.ref_errors}));
                    let mut fails = judge(&m, &o, &class);
                    fails.extend(legacy_judge(&m, &o, &class));
                    ctx.checks(1);
                    for (k, w) in fails {
                        ctx.violation(&k, w, serde_json::to_value(&c).unwrap(), (li + variant) as u64);
                    }
                }
            }
        }
        // text-level faults: index fields of the network file outside the u32 range
        for (bi, (_bname, net)) in bases.iter().enumerate() {
            for li in 1..net.0.len() {
                if !ctx.claim() {
                    continue;
                }
                for field in TEXT_FIELDS {
                    for variant in 0..4usize {
                        let c = Case { base: bi, link: li, field: format!("text:{field}"), variant, second: None };
                        if let Some((tree, new)) = text_fault(net, li, field, variant) {
                            ctx.describe(&serde_json::to_value(&c).unwrap());
                            ctx.evaluation();
                            ctx.state();
                            ctx.transition();
                            ctx.checks(2);
                            ctx.sig(&format!("text:{field}:{variant}"));
                            for (k, w) in text_judge(&tree, field, new) {
                                ctx.violation(&k, w, serde_json::to_value(&c).unwrap(), (li + variant) as u64);
                            }
                        }
                    }
                }
            }
        }
        // thorough tier: EVERY PAIR of mutations on the two smallest feature-carrying bases -- a second fault must neither
        // mask the first one (early exits) nor turn an error into a panic
        if ctx.tier.is_thorough() {
            for (bi, (bname, net)) in bases.iter().enumerate() {
                if bname != "line2" && bname != "line3-features" {
                    continue;
                }
                let mut muts: Vec<(usize, String, usize)> = vec![];
                for (li, field, nvar) in mutation_sites(net) {
                    for variant in 0..nvar {
                        muts.push((li, field.clone(), variant));
                    }
                }
                for a in 0..muts.len() {
                    if !ctx.claim() {
                        continue;
                    }
                    let first = Case { base: bi, link: muts[a].0, field: muts[a].1.clone(), variant: muts[a].2, second: None };
                    let mut m1 = net.clone();
                    if !apply(&mut m1, &first) {
                        continue;
                    }
                    let class1 = class_of(&first, net.0.len());
                    for b in (a + 1)..muts.len() {
                        let sec = Case { base: bi, link: muts[b].0, field: muts[b].1.clone(), variant: muts[b].2, second: None };
                        let mut m = m1.clone();
                        // the second mutation meets a link the first one already damaged: where the mutation operator itself
                        // cannot be applied (it indexes points that are gone) the pair does not exist
                        match guarded(|| apply(&mut m, &sec)) {
                            Ok(true) => {}
                            _ => continue,
                        }
                        let c = Case { second: Some(muts[b].clone()), ..first.clone() };
                        ctx.describe(&serde_json::to_value(&c).unwrap());
                        let o = observe(&m);
                        ctx.evaluation();
                        ctx.state();
                        ctx.transition();
                        ctx.checks(3);
                        let class = format!("pair:{}+{}", class1, class_of(&sec, net.0.len()));
                        ctx.sig(&format!("pair:{}", if o.ref_errors.is_empty() { "valid" } else { "invalid" }));
                        let mut fails = judge(&m, &o, &class);
                        fails.extend(legacy_judge(&m, &o, &class));
                        for (k, w) in fails {
                            if ctx.wants_violation(&k, (a + b) as u64) {
                                ctx.violation(&k, w, serde_json::to_value(&c).unwrap(), (a + b) as u64);
                            } else {
                                ctx.count_violation_only(&k);
                            }
                        }
                    }
                    if ctx.out_of_time() {
                        break;
                    }
                }
            }
        }
        ctx.finish();
    }
    fn replay(&self, case: &Value) -> ReplayOutcome {
        let c: Case = match serde_json::from_value(case.clone()) {
            Ok(c) => c,
            Err(e) => return ReplayOutcome { violations: vec![("bad-replay-file".into(), e.to_string())], observation: String::new() },
        };
        let bases = base_networks();
        if let Some(field) = c.field.strip_prefix("text:") {
            let v = match text_fault(&bases[c.base].1, c.link, field, c.variant) {
                Some((tree, new)) => text_judge(&tree, field, new),
                None => vec![],
            };
            return ReplayOutcome { violations: v, observation: format!("text fault {} variant {}", field, c.variant) };
        }
        let mut m = bases[c.base].1.clone();
        let mut v = vec![];
        let class;
        if c.field == "none" {
            class = "base".to_string();
            v.extend(file_and_legacy(&m));
        } else {
            apply(&mut m, &c);
            let n0 = bases[c.base].1 .0.len();
            class = match &c.second {
                None => class_of(&c, n0),
                Some((l2, f2, v2)) => {
                    let sec = Case { base: c.base, link: *l2, field: f2.clone(), variant: *v2, second: None };
                    let _ = guarded(|| apply(&mut m, &sec));
                    format!("pair:{}+{}", class_of(&c, n0), class_of(&sec, n0))
                }
            };
        }
        let o = observe(&m);
        v.extend(judge(&m, &o, &class));
        if c.field != "none" {
            v.extend(legacy_judge(&m, &o, &class));
        }
        ReplayOutcome { violations: v, observation: format!("ref={:?} validate={:?} json={:?} yaml={:?}", o.ref_errors, o.validate, o.json, o.yaml) }
    }
}

/// write `net` in the legacy layout (speed_sets as a list carrying train_type, no speed_set field) and load it with
/// Network::from_file; None when the network cannot be expressed in that layout
fn legacy_load(net: &Network, tag: &str) -> Option<Result<Result<Network, String>, String>> {
    let uses_map = net.0.iter().skip(1).all(|l| l.speed_set.is_none());
    if !uses_map {
        return None;
    }
    let mut val = serde_json::to_value(net).ok()?;
    if let Some(arr) = val.as_array_mut() {
        for l in arr.iter_mut() {
            let obj = l.as_object_mut()?;
            obj.remove("speed_set");
            let ss = obj.remove("speed_sets").unwrap_or(Value::Null);
            let mut list = vec![];
            if let Some(map) = ss.as_object() {
                for (tt, s) in map {
                    let mut s = s.clone();
                    s.as_object_mut()?.insert("train_type".into(), Value::String(tt.clone()));
                    list.push(s);
                }
            }
            obj.insert("speed_sets".into(), Value::Array(list));
        }
    }
    let dir = std::env::temp_dir().join(format!("altrios-mc-c16l-{}-{}", std::process::id(), tag));
    let _ = std::fs::create_dir_all(&dir);
    let p = dir.join("legacy.yaml");
    std::fs::write(&p, serde_yaml::to_string(&val).ok()?).ok()?;
    let r = guarded(|| Network::from_file(&p).map_err(|e| format!("{e:#}")));
    let _ = std::fs::remove_dir_all(&dir);
    Some(r)
}

/// from_file for yaml/json equals the in-memory network; the legacy layout loads to the same network
fn file_and_legacy(net: &Network) -> Vec<(String, String)> {
    let mut v = vec![];
    let dir = std::env::temp_dir().join(format!("altrios-mc-c16-{}", std::process::id()));
    let _ = std::fs::create_dir_all(&dir);
    for ext in ["yaml", "json"] {
        let p = dir.join(format!("net.{ext}"));
        let txt = if ext == "yaml" { serde_yaml::to_string(net).unwrap() } else { serde_json::to_string(net).unwrap() };
        std::fs::write(&p, txt).unwrap();
        match guarded(|| Network::from_file(&p)) {
            Ok(Ok(n2)) => {
                if &n2 != net {
                    v.push((format!("file-roundtrip-differs@Network::from_file:{ext}"), "loaded network differs".into()));
                }
            }
            Ok(Err(e)) => {
                if ref_validate(&net.0).is_empty() {
                    v.push((format!("consistent-network-rejected@Network::from_file:{ext}"), format!("{e:#}").chars().take(300).collect()));
                }
            }
            Err(pn) => v.push((format!("panic@Network::from_file:{ext}"), pn)),
        }
    }
    // legacy layout: speed_sets as a list with train_type, no speed_set field
    let uses_map = net.0.iter().skip(1).all(|l| !l.speed_sets.is_empty());
    if uses_map {
        let mut val = serde_json::to_value(net).unwrap();
        if let Some(arr) = val.as_array_mut() {
            for l in arr.iter_mut() {
                let obj = l.as_object_mut().unwrap();
                obj.remove("speed_set");
                let ss = obj.remove("speed_sets").unwrap_or(Value::Null);
                let mut list = vec![];
                if let Some(map) = ss.as_object() {
                    for (tt, s) in map {
                        let mut s = s.clone();
                        s.as_object_mut().unwrap().insert("train_type".into(), Value::String(tt.clone()));
                        list.push(s);
                    }
                }
                obj.insert("speed_sets".into(), Value::Array(list));
            }
        }
        let p = dir.join("legacy.yaml");
        std::fs::write(&p, serde_yaml::to_string(&val).unwrap()).unwrap();
        match guarded(|| Network::from_file(&p)) {
            Ok(Ok(n2)) => {
                if &n2 != net {
                    v.push(("legacy-layout-loads-differently@Network::from_file".into(), "legacy file does not load to the same network".into()));
                }
            }
            Ok(Err(e)) => v.push(("legacy-layout-rejected@Network::from_file".into(), format!("{e:#}").chars().take(300).collect())),
            Err(pn) => v.push(("panic@Network::from_file:legacy".into(), pn)),
        }
    }
    let _ = std::fs::remove_dir_all(&dir);
    v
}
