//! C17: every model object survives save/load in every advertised format, mid-run too.
//! E-CKPT: catalogue of exported types x {yaml, json, bin} x every step index of short runs as the checkpoint.

use crate::domain::disp::*;
use crate::domain::net::*;
use crate::domain::pt::*;
use crate::domain::train::*;
use crate::engine::{guarded, Ctx, Prop, ReplayOutcome, Tier};
use altrios_core::consist::consist_sim::ConsistSimulation;
use altrios_core::consist::locomotive::loco_sim::{LocomotiveSimulation, PowerTrace};
use altrios_core::consist::locomotive::powertrain::electric_drivetrain::ElectricDrivetrain;
use altrios_core::consist::locomotive::powertrain::fuel_converter::FuelConverter;
use altrios_core::consist::locomotive::powertrain::generator::Generator;
use altrios_core::consist::locomotive::powertrain::reversible_energy_storage::ReversibleEnergyStorage;
use altrios_core::consist::locomotive::Locomotive;
use altrios_core::consist::Consist;
use altrios_core::meet_pass::est_times::make_est_times;
use altrios_core::track::{Network, PathTpc, TrainParams};
use altrios_core::train::{InitTrainState, SetSpeedTrainSim, SpeedLimitTrainSim, SpeedTrace, TrainSimBuilder};
use altrios_core::traits::SerdeAPI;
use altrios_core::uc;
use altrios_core::validate::Valid;
use serde::{Deserialize, Serialize};
use serde_json::Value;

pub const FORMATS: [&str; 3] = ["yaml", "json", "bin"];

#[derive(Debug, Clone, Serialize, Deserialize, PartialEq)]
pub struct Case {
    pub subject: String,
    pub format: String,
    /// checkpoint step (simulations only)
    pub checkpoint: usize,
    /// via to_file/from_file instead of the string/bytes API
    pub file: bool,
}

pub type Fails = Vec<(String, String)>;

fn save_load<T: SerdeAPI>(x: &T, fmt: &str, file: bool) -> Result<T, (String, String)> {
    if file {
        let dir = std::env::temp_dir().join(format!("altrios-mc-c17-{}-{:?}", std::process::id(), std::thread::current().id()));
        let _ = std::fs::create_dir_all(&dir);
        let p = dir.join(format!("obj.{fmt}"));
        // the path already holds an older, LONGER file (a rolling checkpoint / re-used results file): to_file is
        // documented to truncate it
        let _ = std::fs::write(&p, vec![b'#'; 1 << 20]);
        let r = (|| {
            x.to_file(&p).map_err(|e| ("save".to_string(), format!("{e:#}")))?;
            T::from_file(&p).map_err(|e| ("load".to_string(), format!("{e:#}")))
        })();
        let _ = std::fs::remove_dir_all(&dir);
        return r;
    }
    match fmt {
        "yaml" => {
            let s = x.to_yaml().map_err(|e| ("save".to_string(), format!("{e:#}")))?;
            T::from_yaml(&s).map_err(|e| ("load".to_string(), format!("{e:#}")))
        }
        "json" => {
            let s = x.to_json().map_err(|e| ("save".to_string(), format!("{e:#}")))?;
            T::from_json(&s).map_err(|e| ("load".to_string(), format!("{e:#}")))
        }
        _ => {
            let b = x.to_bincode().map_err(|e| ("save".to_string(), format!("{e:#}")))?;
            T::from_bincode(&b).map_err(|e| ("load".to_string(), format!("{e:#}")))
        }
    }
}

/// cause classes for the known serde limitations (DESIGN C17): the key of such a failure does not name the subject,
/// any other failure does
fn cause_class<T: Serialize>(x: &T, fmt: &str) -> &'static str {
    let v = serde_json::to_value(x).unwrap_or(Value::Null);
    match fmt {
        "bin" => {
            // (a) `Location.is_front_end` is read with `serde_this_or_that::as_bool`, which needs deserialize_any
            fn has_location(v: &Value) -> bool {
                match v {
                    Value::Object(m) => m.contains_key("Location ID") || m.values().any(has_location),
                    Value::Array(a) => a.iter().any(has_location),
                    _ => false,
                }
            }
            // (b) a field skipped by `skip_serializing_if` (a `state` equal to its default, `osm_id`, `Lat`/`Lon`,
            // `cd_area_vec` when None) cannot be represented in bincode
            fn skipped(v: &Value) -> bool {
                match v {
                    Value::Object(m) => {
                        (m.contains_key("history") && !m.contains_key("state"))
                            || (m.contains_key("idx_curr") && m.contains_key("idx_flip") && !m.contains_key("osm_id"))
                            || (m.contains_key("heading") && m.contains_key("offset") && !m.contains_key("Lat"))
                            || (m.contains_key("n_cars_by_type") && !m.contains_key("cd_area_vec"))
                            || m.values().any(skipped)
                    }
                    Value::Array(a) => a.iter().any(skipped),
                    _ => false,
                }
            }
            if has_location(&v) {
                "location-needs-deserialize-any"
            } else if skipped(&v) {
                "skipped-field"
            } else {
                "other"
            }
        }
        "json" => {
            let y = serde_yaml::to_string(x).unwrap_or_default();
            if y.contains(".inf") || y.contains(".nan") || y.contains(".NaN") {
                "non-finite-number"
            } else {
                "other"
            }
        }
        _ => "other",
    }
}

fn fail_key(stage: &str, name: &str, fmt: &str, class: &str) -> String {
    if class == "other" {
        format!("{stage}-failed@{name}:{fmt}")
    } else {
        format!("{stage}-failed@{fmt}:{class}")
    }
}

/// numeric comparison of two serialized trees (JSON band: relative 1e-9)
fn trees_close(a: &Value, b: &Value, rel: f64) -> bool {
    match (a, b) {
        (Value::Number(x), Value::Number(y)) => {
            let (x, y) = (x.as_f64().unwrap_or(f64::NAN), y.as_f64().unwrap_or(f64::NAN));
            // absolute part: sums that cancel to ~0 (e.g. -2.9e-11 J against 0 J of wheel energy) only carry rounding noise
            x == y || (x - y).abs() <= rel * x.abs().max(y.abs()) + if rel > 0.0 { 1e-7 } else { 0.0 }
        }
        (Value::Object(x), Value::Object(y)) => x.len() == y.len() && x.iter().all(|(k, v)| y.get(k).map(|w| trees_close(v, w, rel)).unwrap_or(false)),
        (Value::Array(x), Value::Array(y)) => x.len() == y.len() && x.iter().zip(y.iter()).all(|(v, w)| trees_close(v, w, rel)),
        (x, y) => x == y,
    }
}

/// first differing path between two serialized trees
pub fn first_diff(a: &Value, b: &Value, rel: f64, path: &str) -> Option<String> {
    match (a, b) {
        (Value::Object(x), Value::Object(y)) => {
            for (k, v) in x {
                match y.get(k) {
                    None => return Some(format!("{path}.{k} missing")),
                    Some(w) => {
                        if let Some(d) = first_diff(v, w, rel, &format!("{path}.{k}")) {
                            return Some(d);
                        }
                    }
                }
            }
            None
        }
        (Value::Array(x), Value::Array(y)) => {
            if x.len() != y.len() {
                return Some(format!("{path} length {} vs {}", x.len(), y.len()));
            }
            for (i, (v, w)) in x.iter().zip(y.iter()).enumerate() {
                if let Some(d) = first_diff(v, w, rel, &format!("{path}[{i}]")) {
                    return Some(d);
                }
            }
            None
        }
        (x, y) => {
            if trees_close(x, y, rel) {
                None
            } else {
                Some(format!("{path}: {x} vs {y}"))
            }
        }
    }
}

/// plain objects: save, load, save again, load again; R1 == R2
fn roundtrip_obj<T: SerdeAPI + PartialEq>(name: &str, x: &T, fmt: &str, file: bool, checks: &mut u64) -> Fails {
    let mut f: Fails = vec![];
    *checks += 3;
    let class = cause_class(x, fmt);
    let r1 = match guarded(|| save_load(x, fmt, file)) {
        Err(p) => {
            f.push((format!("panic@{name}:{fmt}:{class}"), p.chars().take(200).collect()));
            return f;
        }
        Ok(Err((stage, e))) => {
            f.push((fail_key(&stage, name, fmt, class), format!("{name}: {}", e.chars().take(240).collect::<String>())));
            return f;
        }
        Ok(Ok(r)) => r,
    };
    match guarded(|| save_load(&r1, fmt, file)) {
        Ok(Ok(r2)) => {
            if serde_json::to_value(&r1).ok() != serde_json::to_value(&r2).ok() {
                f.push((format!("repeated-round-trip-drifts@{name}:{fmt}"), "load(save(x)) differs from load(save(load(save(x))))".into()));
            }
        }
        Ok(Err((stage, e))) => f.push((fail_key(&format!("second-{stage}"), name, fmt, class), format!("{name}: {}", e.chars().take(240).collect::<String>()))),
        Err(p) => f.push((format!("panic@{name}:{fmt}:{class}"), p.chars().take(200).collect())),
    }
    // the other spellings of the same format the API advertises (`to_str` / `from_str` with "yml", ".yaml", "JSON", and
    // `from_reader`) must read back the same object as the primary entry point
    if !file && fmt != "bin" {
        let want = serde_json::to_value(&r1).ok();
        for alias in if fmt == "yaml" { ["yml", ".yaml", "YAML"] } else { ["json", ".json", "JSON"] } {
            *checks += 1;
            let got = guarded(|| -> Result<T, String> {
                let s = x.to_str(alias).map_err(|e| format!("to_str: {e:#}"))?;
                let a = T::from_str(&s, alias).map_err(|e| format!("from_str: {e:#}"))?;
                let b = T::from_reader(std::io::Cursor::new(s.into_bytes()), alias.trim_start_matches('.').to_lowercase().as_str()).map_err(|e| format!("from_reader: {e:#}"))?;
                if serde_json::to_value(&a).ok() != serde_json::to_value(&b).ok() {
                    return Err("from_str and from_reader read different objects".into());
                }
                Ok(a)
            });
            match got {
                Ok(Ok(a)) => {
                    if serde_json::to_value(&a).ok() != want {
                        f.push((format!("string-api-reads-a-different-object@{name}:{fmt}"), format!("{name}: to_str/from_str(\"{alias}\") differs from to_{fmt}/from_{fmt}")));
                    }
                }
                Ok(Err(e)) => f.push((fail_key("load", name, fmt, class), format!("{name} via \"{alias}\": {}", e.chars().take(200).collect::<String>()))),
                Err(p) => f.push((format!("panic@{name}:{fmt}:{class}"), p.chars().take(200).collect())),
            }
        }
    }
    // (the property does not demand load(save(x)) == x field by field: loading runs `init()`, which may normalise
    // derived state such as the consist's dyn-brake capability; behavioural identity is checked through resumed runs)
    f
}

/// paths of the boolean leaves of a serialized tree (option flags); `state` / `history` blocks are results, not options
fn bool_leaves(v: &Value, path: &mut Vec<String>, out: &mut Vec<(Vec<String>, bool)>) {
    match v {
        Value::Bool(b) => out.push((path.clone(), *b)),
        Value::Object(m) => {
            for (k, w) in m {
                if k == "state" || k == "history" {
                    continue;
                }
                path.push(k.clone());
                bool_leaves(w, path, out);
                path.pop();
            }
        }
        Value::Array(a) => {
            for (i, w) in a.iter().enumerate().take(8) {
                path.push(i.to_string());
                bool_leaves(w, path, out);
                path.pop();
            }
        }
        _ => {}
    }
}
fn leaf_mut<'a>(v: &'a mut Value, path: &[String]) -> Option<&'a mut Value> {
    let mut cur = v;
    for k in path {
        cur = match cur {
            Value::Object(m) => m.get_mut(k)?,
            Value::Array(a) => a.get_mut(k.parse::<usize>().ok()?)?,
            _ => return None,
        };
    }
    Some(cur)
}

/// Every single-flag variant of a catalogue object: each boolean option of the serialized object flipped in turn (the
/// variant is built by loading the edited JSON, so it is an object the library itself accepts), saved and loaded in
/// the format under test; every option flag of the variant must come back as it was written.
pub fn flag_variants<T: SerdeAPI + PartialEq>(name: &str, x: &T, fmt: &str, file: bool, checks: &mut u64) -> Fails {
    let mut f: Fails = vec![];
    let tree = match serde_json::to_value(x) {
        Ok(t) => t,
        Err(_) => return f,
    };
    let mut leaves = vec![];
    bool_leaves(&tree, &mut vec![], &mut leaves);
    for (path, val) in leaves {
        let mut t2 = tree.clone();
        match leaf_mut(&mut t2, &path) {
            Some(l) => *l = Value::Bool(!val),
            None => continue,
        }
        let y = match guarded(|| T::from_json(&t2.to_string())) {
            Ok(Ok(y)) => y,
            _ => continue, // not an object the library accepts (or not expressible in JSON): not a variant
        };
        let before = match serde_json::to_value(&y) {
            Ok(b) => b,
            Err(_) => continue,
        };
        *checks += 1;
        let class = cause_class(&y, fmt);
        let r1 = match guarded(|| save_load(&y, fmt, file)) {
            Ok(Ok(r)) => r,
            Ok(Err((stage, e))) => {
                f.push((fail_key(&stage, name, fmt, class), format!("{name} with {} = {}: {}", path.join("."), !val, e.chars().take(200).collect::<String>())));
                continue;
            }
            Err(p) => {
                f.push((format!("panic@{name}:{fmt}:{class}"), p.chars().take(200).collect()));
                continue;
            }
        };
        let after = serde_json::to_value(&r1).unwrap_or(Value::Null);
        let (mut la, mut lb) = (vec![], vec![]);
        bool_leaves(&before, &mut vec![], &mut la);
        bool_leaves(&after, &mut vec![], &mut lb);
        if la != lb {
            let d = la.iter().zip(lb.iter()).find(|(a, b)| a != b).map(|(a, b)| format!("{} = {} came back as {} = {}", a.0.join("."), a.1, b.0.join("."), b.1)).unwrap_or_else(|| format!("{} flags written, {} read back", la.len(), lb.len()));
            f.push((format!("option-flag-changed-by-round-trip@{name}:{fmt}"), format!("{name} with {} = {}: {d}", path.join("."), !val)));
        }
    }
    f
}

// ---------------------------------------------------------------------------------- resumable simulations
pub trait Resumable: SerdeAPI + PartialEq + Clone {
    fn step_once(&mut self) -> Result<bool, String>; // Ok(false) = finished
}
impl Resumable for LocomotiveSimulation {
    fn step_once(&mut self) -> Result<bool, String> {
        if self.i >= self.power_trace.len() {
            return Ok(false);
        }
        self.step().map_err(|e| format!("{e:#}"))?;
        Ok(true)
    }
}
impl Resumable for ConsistSimulation {
    fn step_once(&mut self) -> Result<bool, String> {
        if self.i >= self.power_trace.len() {
            return Ok(false);
        }
        self.step().map_err(|e| format!("{e:#}"))?;
        Ok(true)
    }
}
impl Resumable for SetSpeedTrainSim {
    fn step_once(&mut self) -> Result<bool, String> {
        if self.state.i >= self.speed_trace.len() {
            return Ok(false);
        }
        self.step().map_err(|e| format!("{e:#}"))?;
        Ok(true)
    }
}
/// wrapper so that the speed-limited run has a finite horizon in steps
#[derive(Clone, PartialEq, Serialize, Deserialize)]
pub struct SlRun(pub SpeedLimitTrainSim);
impl SerdeAPI for SlRun {
    fn init(&mut self) -> anyhow::Result<()> {
        self.0.init()
    }
}
impl Resumable for SlRun {
    fn step_once(&mut self) -> Result<bool, String> {
        let s = &self.0;
        let go = s.state.offset < s.offset_end() - 1000.0 * uc::FT || (s.state.offset < s.offset_end() && s.state.speed.value != 0.0);
        if !go || s.state.i > 60 {
            return Ok(false);
        }
        self.0.step().map_err(|e| format!("{e:#}"))?;
        Ok(true)
    }
}

fn resume_check<T: Resumable>(name: &str, root: &T, checkpoint: usize, fmt: &str, file: bool, checks: &mut u64) -> (Fails, u64) {
    let mut f: Fails = vec![];
    let mut x = root.clone();
    let mut steps = 0u64;
    for _ in 0..checkpoint {
        match guarded(|| x.step_once()) {
            Ok(Ok(true)) => steps += 1,
            _ => return (f, steps), // run shorter than the checkpoint: nothing to check here
        }
    }
    *checks += 2;
    let class = cause_class(&x, fmt);
    let r1 = match guarded(|| save_load(&x, fmt, file)) {
        Err(p) => {
            f.push((format!("panic@{name}:{fmt}:{class}"), p.chars().take(200).collect()));
            return (f, steps);
        }
        Ok(Err((stage, e))) => {
            f.push((fail_key(&stage, name, fmt, class), format!("{name} checkpoint {checkpoint}: {}", e.chars().take(200).collect::<String>())));
            return (f, steps);
        }
        Ok(Ok(r)) => r,
    };
    // no drift on a second round trip
    match guarded(|| save_load(&r1, fmt, file)) {
        Ok(Ok(r2)) => {
            if serde_json::to_value(&r1).ok() != serde_json::to_value(&r2).ok() {
                f.push((format!("repeated-round-trip-drifts@{name}:{fmt}"), format!("checkpoint {checkpoint}")));
            }
        }
        Ok(Err((stage, e))) => f.push((fail_key(&format!("second-{stage}"), name, fmt, class), format!("{name}: {}", e.chars().take(200).collect::<String>()))),
        Err(p) => f.push((format!("panic@{name}:{fmt}:{class}"), p.chars().take(200).collect())),
    }
    // resume both to the end
    let mut a = x;
    let mut b = r1;
    let mut guard = 0;
    loop {
        let ra = guarded(|| a.step_once());
        let rb = guarded(|| b.step_once());
        guard += 1;
        *checks += 1;
        match (&ra, &rb) {
            (Ok(Ok(true)), Ok(Ok(true))) => steps += 1,
            (Ok(Ok(false)), Ok(Ok(false))) => break,
            (Ok(Err(_)), Ok(Err(_))) => break,
            _ => {
                f.push((format!("resumed-run-diverges@{name}:{fmt}"), format!("checkpoint {checkpoint}, {guard} steps later: original {:?} vs resumed {:?}", ra.as_ref().map(|r| r.as_ref().map_err(|e| e.chars().take(80).collect::<String>())), rb.as_ref().map(|r| r.as_ref().map_err(|e| e.chars().take(80).collect::<String>())))));
                return (f, steps);
            }
        }
        if guard > 500 {
            break;
        }
    }
    *checks += 1;
    // compared through the serialized view: fields marked serde(skip) are derived caches and may legitimately differ
    let (va, vb) = (serde_json::to_value(&a).unwrap_or(Value::Null), serde_json::to_value(&b).unwrap_or(Value::Null));
    let same = if fmt == "json" { trees_close(&va, &vb, 1e-9) } else { va == vb };
    if !same {
        f.push((format!("resumed-run-ends-differently@{name}:{fmt}"), format!("checkpoint {checkpoint}: final state / histories of the resumed run differ from the uninterrupted run; first difference {:?}", first_diff(&va, &vb, if fmt == "json" { 1e-9 } else { 0.0 }, ""))));
    }
    (f, steps)
}

// ---------------------------------------------------------------------------------- catalogue
fn power_trace(n: usize, shape: usize) -> PowerTrace {
    let time: Vec<f64> = (0..=n).map(|x| x as f64 * if shape == 2 { 0.5 } else { 1.0 }).collect();
    let pwr: Vec<f64> = (0..=n)
        .map(|i| match shape {
            0 => 1.0e5 + 2.0e4 * i as f64,
            1 => {
                if i % 3 == 2 {
                    -2.0e5
                } else {
                    2.0e5
                }
            }
            _ => 3.0e5 * ((i as f64) * 0.7).sin(),
        })
        .collect();
    PowerTrace::new(time, pwr, vec![Some(true); n + 1])
}

/// the shipped five-unit consist recording every step, with unit 0 recording nothing and unit 2 every 4th step
fn hetero_consist() -> Consist {
    let mut c = Consist::default();
    c.set_save_interval(Some(1));
    c.loco_vec[0].set_save_interval(None);
    c.loco_vec[2].set_save_interval(Some(4));
    c
}

fn simple_net() -> Network {
    build_topology(&line_topology(&[1200.0, 900.0], 15.0), true, SetStyle::Map)
}

fn sl_sim(shape: usize) -> SpeedLimitTrainSim {
    let net = simple_net();
    let spec = TrainSpec { n_loaded: 3, n_empty: 2, davis: true, mass_override: None, length_override: None, consist: [0u8, 2, 3][shape % 3], cd_vec: false };
    let lm = location_map(&[("A", vec![1]), ("B", vec![2])]);
    let b = builder(&spec, Some(("A", "B")), Some(InitTrainState::new(Some(5.0 * uc::S), None, None)), Some(1));
    let mut s = b.make_speed_limit_train_sim(&lm, Some(1), None, None).unwrap();
    s.extend_path(&net.0, &[lidx(1), lidx(2)]).unwrap();
    s.finish();
    s
}

fn ss_sim(n: usize, shape: usize) -> SetSpeedTrainSim {
    let net = simple_net();
    let spec = TrainSpec { n_loaded: 3, n_empty: 2, davis: true, mass_override: None, length_override: None, consist: [2u8, 0, 4][shape % 3], cd_vec: false };
    let b = builder(&spec, None, Some(InitTrainState::new(Some(0.0 * uc::S), None, Some(3.0 * uc::MPS))), Some(1));
    let time: Vec<f64> = (0..=n).map(|x| x as f64 * if shape == 1 { 2.0 } else { 1.0 }).collect();
    let speed: Vec<f64> = (0..=n).map(|i| 3.0 + if shape == 2 { (i % 4) as f64 * 0.2 } else { 0.15 * i as f64 }).collect();
    b.make_set_speed_train_sim(&net, &[lidx(1), lidx(2)], SpeedTrace::new(time, speed, None), Some(1)).unwrap()
}

pub fn subjects() -> Vec<&'static str> {
    vec![
        "FuelConverter", "FuelConverter:stepped", "Generator", "ElectricDrivetrain", "ReversibleEnergyStorage", "Locomotive:conv", "Locomotive:bel", "Locomotive:hybrid", "Locomotive:dummy", "Locomotive:conv:stepped", "Consist", "Consist:stepped", "PowerTrace", "SpeedTrace", "RailVehicle", "TrainConfig", "TrainSimBuilder",
        "LocomotiveSimulationVec:stepped", "SpeedLimitTrainSimVec", "Link", "SpeedSet", "Location", "TimedLinkPath", "LinkPath", "TrainRes", "BrakingPoints", "ReversibleEnergyStorage:stepped", "Locomotive:hybrid:stepped",
        "TrainParams", "PathTpc:unfinished", "PathTpc:finished", "FricBrake", "Network", "EstTimeNet", "TimedPath", "SetSpeedTrainSim:default", "SpeedLimitTrainSim:valid", "LocomotiveSimulation:0", "LocomotiveSimulation:1", "LocomotiveSimulation:2", "LocomotiveSimulation:3", "LocomotiveSimulation:4", "LocomotiveSimulation:5", "ConsistSimulation:0", "ConsistSimulation:1", "ConsistSimulation:2", "ConsistSimulation:3", "ConsistSimulation:4", "ConsistSimulation:5", "Consist:own-intervals", "SetSpeedTrainSim:0",
        "SetSpeedTrainSim:1", "SetSpeedTrainSim:2", "SpeedLimitTrainSim:0", "SpeedLimitTrainSim:1", "SpeedLimitTrainSim:2",
    ]
}

fn is_hybrid_shape(s: &str) -> bool {
    (s.starts_with("LocomotiveSimulation:") || s.starts_with("ConsistSimulation:")) && (s.ends_with(":3") || s.ends_with(":4"))
}

fn is_sim(s: &str) -> bool {
    s.rsplit(':').next().map(|x| x.parse::<usize>().is_ok()).unwrap_or(false)
}

pub fn run_case(c: &Case, n_steps: usize, checks: &mut u64) -> (Fails, u64) {
    let fmt = c.format.as_str();
    let file = c.file;
    let shape = c.subject.rsplit(':').next().and_then(|x| x.parse::<usize>().ok()).unwrap_or(0);
    macro_rules! obj {
        ($v:expr) => {{
            let v = $v;
            let mut f = roundtrip_obj(&c.subject, &v, fmt, file, checks);
            f.extend(flag_variants(&c.subject, &v, fmt, file, checks));
            (f, 0)
        }};
    }
    match c.subject.as_str() {
        "FuelConverter" => obj!(FuelConverter::default()),
        "FuelConverter:stepped" => obj!({
            let mut l = Locomotive::default();
            let mut sim = LocomotiveSimulation::new(l.clone(), power_trace(4, 0), Some(1));
            let _ = sim.walk();
            l = sim.loco_unit;
            l.fuel_converter().unwrap().clone()
        }),
        "Generator" => obj!(Generator::default()),
        "ElectricDrivetrain" => obj!(ElectricDrivetrain::default()),
        "ReversibleEnergyStorage" => obj!(ReversibleEnergyStorage::default()),
        "Locomotive:conv" => obj!(Locomotive::default()),
        "Locomotive:bel" => obj!(Locomotive::default_battery_electric_loco()),
        "Locomotive:hybrid" => obj!(Locomotive::default_hybrid_electric_loco()),
        "Locomotive:dummy" => obj!({
            let mut v = serde_json::to_value(Locomotive::default()).unwrap();
            v["loco_type"] = serde_json::json!({"DummyLoco": {}});
            v["mass"] = serde_json::json!(null);
            serde_json::from_value::<Locomotive>(v).unwrap()
        }),
        "Locomotive:conv:stepped" => obj!({
            let mut sim = LocomotiveSimulation::new(Locomotive::default(), power_trace(5, 1), Some(1));
            let _ = sim.walk();
            sim.loco_unit
        }),
        "Consist" => obj!(Consist::default()),
        "Consist:stepped" => obj!({
            let mut sim = ConsistSimulation::new(Consist::default(), power_trace(5, 0), Some(1));
            let _ = sim.walk();
            sim.loco_con
        }),
        // nested objects on save intervals of their own (set after construction through the public per-unit setter):
        // a round trip must not "normalise" them
        "Consist:own-intervals" => obj!(hetero_consist()),
        "PowerTrace" => obj!(power_trace(6, 2)),
        "SpeedTrace" => obj!(SpeedTrace::new(vec![0.0, 1.0, 2.5], vec![0.0, 0.4, 1.1], Some(vec![true, true, false]))),
        "RailVehicle" => obj!(manifest(true, true)),
        "TrainConfig" => obj!(train_config(&train_spec(false))),
        "TrainSimBuilder" => obj!(builder(&train_spec(false), Some(("A", "B")), Some(InitTrainState::new(Some(3.0 * uc::S), Some(400.0 * uc::M), Some(0.0 * uc::MPS))), Some(1))),
        "TrainParams" => obj!(TrainParams::valid()),
        // further exported types (round 3): batch containers, track pieces, timed / plain link paths, the resistance and
        // braking-point parts of a prepared speed-limited simulation, the stepped powertrain variants
        "LocomotiveSimulationVec:stepped" => obj!({
            let mut v = altrios_core::consist::locomotive::loco_sim::LocomotiveSimulationVec(vec![
                LocomotiveSimulation::new(Locomotive::default(), power_trace(4, 0), Some(1)),
                LocomotiveSimulation::new(Locomotive::default_battery_electric_loco(), power_trace(6, 1), Some(2)),
            ]);
            let _ = v.walk(false);
            v
        }),
        "SpeedLimitTrainSimVec" => obj!(altrios_core::train::SpeedLimitTrainSimVec(vec![sl_sim(0), sl_sim(1)])),
        "Link" => obj!(simple_net().0[1].clone()),
        "SpeedSet" => obj!(simple_net().0[1].speed_sets.values().next().cloned().unwrap_or_default()),
        "Location" => obj!(location("A", 1)),
        "TimedLinkPath" => obj!(altrios_core::train::TimedLinkPath(vec![altrios_core::train::LinkIdxTime::new(lidx(1), 0.0 * uc::S), altrios_core::train::LinkIdxTime::new(lidx(2), 61.5 * uc::S)])),
        "LinkPath" => obj!(altrios_core::track::LinkPath(vec![lidx(1), lidx(2)])),
        "TrainRes" => obj!(sl_sim(0).train_res.clone()),
        "BrakingPoints" => obj!(sl_sim(2).braking_points.clone()),
        "ReversibleEnergyStorage:stepped" => obj!({
            let mut sim = LocomotiveSimulation::new(Locomotive::default_battery_electric_loco(), power_trace(5, 1), Some(1));
            let _ = sim.walk();
            sim.loco_unit.reversible_energy_storage().unwrap().clone()
        }),
        "Locomotive:hybrid:stepped" => obj!({
            let mut sim = LocomotiveSimulation::new(Locomotive::default_hybrid_electric_loco(), power_trace(5, 0), Some(1));
            let _ = sim.walk();
            sim.loco_unit
        }),
        "PathTpc:unfinished" => obj!({
            let mut p = PathTpc::new(train_params(200.0, 20.0));
            p.extend(&simple_net().0, &[lidx(1), lidx(2)]).unwrap();
            p
        }),
        "PathTpc:finished" => obj!({
            let mut p = PathTpc::new(train_params(200.0, 20.0));
            p.extend(&simple_net().0, &[lidx(1), lidx(2)]).unwrap();
            p.finish();
            p
        }),
        "FricBrake" => obj!(sl_sim(0).fric_brake.clone()),
        "Network" => obj!(simple_net()),
        "EstTimeNet" => obj!({
            let t = &topologies(false)[0];
            let sim = make_sim(t, &TrainDesc { od: 0, dep: 30, long: false }, 1).unwrap();
            make_est_times(sim, &t.net.0).unwrap().0
        }),
        "TimedPath" => obj!(vec![altrios_core::train::LinkIdxTime::new(lidx(1), 0.0 * uc::S), altrios_core::train::LinkIdxTime::new(lidx(2), 61.5 * uc::S)]),
        "SetSpeedTrainSim:default" => obj!(SetSpeedTrainSim::default()),
        "SpeedLimitTrainSim:valid" => obj!(SpeedLimitTrainSim::valid()),
        s if s.starts_with("LocomotiveSimulation:") => {
            // shapes 3 / 4: hybrid unit (full battery, rising demand) / hybrid with a half-full battery (traction and braking)
            let loco = match shape {
                1 => Locomotive::default_battery_electric_loco(),
                3 => Locomotive::default_hybrid_electric_loco(),
                4 => {
                    let mut h = Locomotive::default_hybrid_electric_loco();
                    if let Some(r) = h.reversible_energy_storage_mut() {
                        r.state.soc = 0.5 * uc::R;
                    }
                    h
                }
                5 => {
                    // limit checking switched off (public option) and a demand that outruns the engine's ramp: the
                    // run only completes while the option survives the checkpoint
                    let mut l = Locomotive::default();
                    l.assert_limits = false;
                    l
                }
                _ => Locomotive::default(),
            };
            let trace = if shape == 5 {
                let time: Vec<f64> = (0..=n_steps).map(|x| x as f64).collect();
                let pwr: Vec<f64> = (0..=n_steps).map(|i| if i == 0 { 0.0 } else if i % 4 == 3 { 4.0e5 } else { 2.0e6 }).collect();
                PowerTrace::new(time, pwr, vec![Some(true); n_steps + 1])
            } else {
                power_trace(n_steps, if shape >= 3 { shape - 3 } else { shape })
            };
            let root = LocomotiveSimulation::new(loco, trace, Some(1));
            let (mut f, st) = resume_check(&c.subject, &root, c.checkpoint, fmt, file, checks);
            if c.checkpoint == 0 {
                f.extend(flag_variants(&c.subject, &root, fmt, file, checks));
            }
            (f, st)
        }
        s if s.starts_with("ConsistSimulation:") => {
            // shapes 3 / 4: consists with a hybrid unit (hybrid+conv RESGreedy, hybrid+BEL+conv Proportional)
            let con = match shape {
                5 => hetero_consist(),
                0 => Consist::default(),
                1 => consist(2, Some(1)),
                2 => consist(4, Some(1)),
                3 => consist(5, Some(1)),
                _ => consist(6, Some(1)),
            };
            let mut root = ConsistSimulation::new(con, power_trace(n_steps, if shape >= 3 { shape - 3 } else { shape }), Some(1));
            if shape == 5 {
                // the constructor propagates one interval: put two units on their own afterwards
                root.loco_con.loco_vec[0].set_save_interval(None);
                root.loco_con.loco_vec[2].set_save_interval(Some(4));
            }
            let (mut f, st) = resume_check(&c.subject, &root, c.checkpoint, fmt, file, checks);
            if c.checkpoint == 0 {
                f.extend(flag_variants(&c.subject, &root, fmt, file, checks));
            }
            (f, st)
        }
        s if s.starts_with("SetSpeedTrainSim:") => {
            let root = ss_sim(n_steps, shape);
            let (mut f, st) = resume_check(&c.subject, &root, c.checkpoint, fmt, file, checks);
            if c.checkpoint == 0 {
                f.extend(flag_variants(&c.subject, &root, fmt, file, checks));
            }
            (f, st)
        }
        s if s.starts_with("SpeedLimitTrainSim:") => {
            let root = SlRun(sl_sim(shape));
            resume_check(&c.subject, &root, c.checkpoint, fmt, file, checks)
        }
        _ => (vec![("bad-subject".into(), c.subject.clone())], 0),
    }
}

pub struct C17;
fn n_steps(tier: Tier) -> usize {
    if tier.is_thorough() {
        25
    } else {
        8
    }
}
impl Prop for C17 {
    fn id(&self) -> &'static str {
        "C17"
    }
    fn level(&self) -> &'static str {
        "fault_enumeration"
    }
    fn rule(&self, tier: Tier) -> String {
        format!("E-CKPT: {} catalogue entries (the four components default and stepped, Locomotive conv/BEL/hybrid/dummy, Consist default and stepped, PowerTrace, SpeedTrace, RailVehicle, TrainConfig, TrainSimBuilder, LocomotiveSimulationVec (walked), SpeedLimitTrainSimVec, Link, SpeedSet, Location, TimedLinkPath, LinkPath, TrainRes and BrakingPoints of a prepared run, stepped battery and stepped hybrid unit, TrainParams, PathTpc unfinished/finished, FricBrake, Network, EstTimeNet, timed path, SetSpeedTrainSim::default, SpeedLimitTrainSim::valid, and three run shapes each of LocomotiveSimulation / ConsistSimulation / SetSpeedTrainSim / SpeedLimitTrainSim, plus two hybrid-unit shapes each of LocomotiveSimulation / ConsistSimulation, and a consist / ConsistSimulation whose units are on save intervals of their own) x formats {{yaml, json, bin}} x {{string/bytes API, to_file/from_file onto a path that already holds a longer file}} x EVERY step index 0..{} of the runs (0..65 for the hybrid shapes in the thorough tier: past the hybrid controller's 60-step re-optimisation interval) as the checkpoint position (checkpoint = crash point). Oracle: save and load succeed, load(save(x)) == load(save(load(save(x)))), the reloaded object describes the same object, and the run resumed from the reloaded copy reproduces every remaining step and the final state (bit-exact for yaml/bin, 1e-9 relative for json). distinct_nontrivial = distinct (subject, format, outcome class) signatures.", subjects().len(), n_steps(tier))
    }
    fn assumptions(&self) -> Vec<String> {
        vec![
            "fields marked serde(skip) (derived interpolation tables) are allowed to differ right after loading; behaviour is compared through the resumed run".into(),
            "JSON numbers are compared with relative 1e-9 (the property grants one ulp per number)".into(),
            "known limitation classes are keyed by (subject, format, cause): bincode + a state skipped because it equals its default; JSON + non-finite number".into(),
        ]
    }
    fn explore(&self, ctx: &mut Ctx) {
        let n_default = n_steps(ctx.tier);
        for s in subjects() {
            // hybrid run shapes, thorough tier: long enough to cross the hybrid controller's re-optimisation interval (60 steps)
            let n = if ctx.tier.is_thorough() && is_hybrid_shape(s) { 65 } else { n_default };
            for fmt in FORMATS {
                for file in [false, true] {
                    let cps: Vec<usize> = if is_sim(s) { (0..=n).collect() } else { vec![0] };
                    if file && is_sim(s) && !ctx.tier.is_thorough() {
                        // quick tier: file API on three checkpoints only
                        for cp in [0usize, 1, n] {
                            if !ctx.claim() {
                                continue;
                            }
                            self.one(ctx, s, fmt, cp, file, n);
                        }
                        continue;
                    }
                    for cp in cps {
                        if !ctx.claim() {
                            continue;
                        }
                        self.one(ctx, s, fmt, cp, file, n);
                    }
                }
            }
        }
        ctx.finish();
    }
    fn replay(&self, case: &Value) -> ReplayOutcome {
        let c: Case = match serde_json::from_value(case.clone()) {
            Ok(c) => c,
            Err(e) => return ReplayOutcome { violations: vec![("bad-replay-file".into(), e.to_string())], observation: String::new() },
        };
        let mut checks = 0;
        // the run length is part of the tier; replay with both and report the union of keys deterministically
        let (mut f, _) = run_case(&c, 8, &mut checks);
        let (mut f2, _) = run_case(&c, 25, &mut checks);
        if is_hybrid_shape(&c.subject) {
            f2.extend(run_case(&c, 65, &mut checks).0);
        }
        for x in f2 {
            if !f.iter().any(|y| y.0 == x.0) {
                f.push(x);
            }
        }
        ReplayOutcome { violations: f, observation: format!("checks={checks}") }
    }
}
impl C17 {
    fn one(&self, ctx: &mut Ctx, s: &str, fmt: &str, cp: usize, file: bool, n: usize) {
        let c = Case { subject: s.to_string(), format: fmt.to_string(), checkpoint: cp, file };
        ctx.describe(&serde_json::to_value(&c).unwrap());
        let mut checks = 0;
        let (fails, steps) = run_case(&c, n, &mut checks);
        ctx.evaluation();
        ctx.checks(checks);
        ctx.stats.states += steps + 1;
        ctx.stats.transitions += steps.max(1);
        ctx.sig(&format!("{}:{}:{}", s, fmt, if fails.is_empty() { "ok".to_string() } else { fails[0].0.split('@').next().unwrap_or("").to_string() }));
        ctx.sample(|| serde_json::to_value(&c).unwrap());
        for (k, w) in fails {
            let size = cp as u64 + file as u64;
            if ctx.wants_violation(&k, size) {
                ctx.violation(&k, w, serde_json::to_value(&c).unwrap(), size);
            } else {
                ctx.count_violation_only(&k);
            }
        }
    }
}

#[allow(dead_code)]
fn _u() {
    let _ = TrainSimBuilder::default();
}
