//! C02 (enforced limit never exceeds a posted limit) and C13 (enforced limit is exactly the tightest
//! restriction, canonical profile): one exploration, two oracles.
//!
//! E-SHAPE: every sorted restriction set on an integer grid, through the real
//! `PathTpc::extend` (the only way to reach `insert_speed`), single link and 2–3-link routes with
//! every composition of the route into successive `extend` calls.

use crate::domain::net::*;
use crate::engine::{guarded, Ctx, Prop, ReplayOutcome, Tier};
use altrios_core::track::{CompareType, LimitType, LinkIdx, Network, PathTpc, SpeedParam, SpeedSet, TrainParams};
use altrios_core::uc;
use altrios_core::validate::ObjState;
use serde::{Deserialize, Serialize};
use serde_json::{json, Value};

pub const UNIT_M: f64 = 100.0;
const SPEEDS: [f64; 3] = [5.0, 10.0, 15.0];

#[derive(Debug, Clone, Serialize, Deserialize, PartialEq)]
pub struct Gate {
    pub limit_type: String,   // MassTotal | MassPerBrake | AxleCount
    pub compare_type: String, // TpEqualRp ...
    pub limit_val: f64,
}

#[derive(Debug, Clone, Serialize, Deserialize, PartialEq)]
pub struct Case {
    /// per link: length in grid units
    pub link_len: Vec<u32>,
    /// per link: restrictions (start, end, speed) in grid units / m/s, sorted
    pub links: Vec<Vec<(u32, u32, f64)>>,
    pub train_len: u32,
    pub head_end: bool,
    pub speed_max: f64,
    /// true: `speed_sets[Freight]`, false: `speed_set: Some`
    pub map_style: bool,
    pub gate: Option<Gate>,
    /// a second condition on the same speed set (the set applies only if EVERY condition holds)
    #[serde(default)]
    pub gate2: Option<Gate>,
    /// composition of the route into extend calls (sums to number of links)
    pub partition: Vec<usize>,
    /// Some((n_fast, n_slow)): the train parameters are DERIVED by `TrainConfig::make_train_params` from a train
    /// configuration listing a 20 m/s car type (n_fast cars) and a 12 m/s car type (n_slow cars, possibly 0); the
    /// train's maximum speed is that of the slowest type that has cars in the train (= `speed_max` of the case)
    #[serde(default)]
    pub cfg: Option<(u32, u32)>,
}

/// the train parameters of a case (hand-written, or derived from a train configuration)
pub fn case_train_params(c: &Case) -> Result<TrainParams, String> {
    match c.cfg {
        None => Ok(train_params(c.train_len as f64 * UNIT_M, c.speed_max)),
        Some((nf, ns)) => {
            use crate::domain::train::manifest;
            let mut fast = manifest(true, false);
            fast.car_type = "Fast".into();
            fast.speed_max = 20.0 * uc::MPS;
            let mut slow = manifest(false, false);
            slow.car_type = "Slow".into();
            slow.speed_max = 12.0 * uc::MPS;
            let mut n: std::collections::HashMap<String, u32> = std::collections::HashMap::new();
            n.insert("Fast".into(), nf);
            n.insert("Slow".into(), ns);
            let cfg = altrios_core::train::TrainConfig::new(vec![fast, slow], n, altrios_core::track::TrainType::Freight, Some(c.train_len as f64 * UNIT_M * uc::M), None, None).map_err(|e| format!("{e:#}"))?;
            cfg.make_train_params().map_err(|e| format!("{e:#}"))
        }
    }
}

fn limit_type(s: &str) -> LimitType {
    match s {
        "MassTotal" => LimitType::MassTotal,
        "MassPerBrake" => LimitType::MassPerBrake,
        _ => LimitType::AxleCount,
    }
}
fn compare_type(s: &str) -> CompareType {
    match s {
        "TpEqualRp" => CompareType::TpEqualRp,
        "TpGreaterThanRp" => CompareType::TpGreaterThanRp,
        "TpLessThanRp" => CompareType::TpLessThanRp,
        "TpGreaterThanEqualRp" => CompareType::TpGreaterThanEqualRp,
        _ => CompareType::TpLessThanEqualRp,
    }
}
const LIMIT_TYPES: [&str; 3] = ["MassTotal", "MassPerBrake", "AxleCount"];
const COMPARE_TYPES: [&str; 5] = ["TpEqualRp", "TpGreaterThanRp", "TpLessThanRp", "TpGreaterThanEqualRp", "TpLessThanEqualRp"];

/// independent reference of the gating condition (train value vs. restriction value)
fn ref_gate_applies(g: &Gate, tp: &TrainParams) -> bool {
    let tv: f64 = match g.limit_type.as_str() {
        "MassTotal" => tp.towed_mass_static.value,
        "MassPerBrake" => tp.mass_per_brake.value,
        _ => tp.axle_count as f64,
    };
    let rv = if g.limit_type == "AxleCount" { (g.limit_val as u32) as f64 } else { g.limit_val };
    match g.compare_type.as_str() {
        "TpEqualRp" => tv == rv,
        "TpGreaterThanRp" => tv > rv,
        "TpLessThanRp" => tv < rv,
        "TpGreaterThanEqualRp" => tv >= rv,
        _ => tv <= rv,
    }
}

pub fn build_network(c: &Case) -> Network {
    let mut links = vec![];
    for (i, lims) in c.links.iter().enumerate() {
        let len_m = c.link_len[i] as f64 * UNIT_M;
        let sl: Vec<(f64, f64, f64)> = lims.iter().map(|(s, e, v)| (*s as f64 * UNIT_M, *e as f64 * UNIT_M, *v)).collect();
        let mut ss = SpeedSet { speed_limits: speed_limits_from(&sl), speed_params: vec![], is_head_end: c.head_end };
        for g in [&c.gate, &c.gate2].into_iter().flatten() {
            ss.speed_params.push(SpeedParam { limit_val: g.limit_val, limit_type: limit_type(&g.limit_type), compare_type: compare_type(&g.compare_type) });
        }
        if ss.speed_limits.is_empty() {
            // an empty speed set is "fake" and must not carry params / head-end flag
            ss = SpeedSet::default();
        }
        links.push(link(i + 1, len_m, vec![], vec![], ss, if c.map_style { SetStyle::Map } else { SetStyle::Single }));
    }
    chain(links)
}

/// reference: pointwise min(speed_max, applicable restrictions covering x); returns the list of all
/// restriction intervals in path coordinates (metres)
pub fn ref_intervals(c: &Case, tp: &TrainParams) -> Vec<(f64, f64, f64)> {
    let mut out = vec![];
    for g in [&c.gate, &c.gate2].into_iter().flatten() {
        if !ref_gate_applies(g, tp) {
            return out;
        }
    }
    let mut base = 0.0;
    let add = if c.head_end { 0.0 } else { c.train_len as f64 * UNIT_M };
    for (i, lims) in c.links.iter().enumerate() {
        for (s, e, v) in lims {
            // a negative speed is a limit of that magnitude (the braking-point code takes the absolute value)
            out.push((base + *s as f64 * UNIT_M, base + *e as f64 * UNIT_M + add, v.abs()));
        }
        base += c.link_len[i] as f64 * UNIT_M;
    }
    out
}
pub fn ref_at(ints: &[(f64, f64, f64)], speed_max: f64, x: f64) -> f64 {
    let mut v = speed_max;
    for (s, e, sp) in ints {
        if *s <= x && x < *e && *sp < v {
            v = *sp;
        }
    }
    v
}
fn impl_at(points: &[(f64, f64)], x: f64) -> f64 {
    let mut v = points[0].1;
    for (o, s) in points {
        if *o <= x {
            v = *s;
        } else {
            break;
        }
    }
    v
}

pub fn build_path(c: &Case, net: &Network, tp: &TrainParams, partition: &[usize]) -> Result<PathTpc, String> {
    let mut p = PathTpc::new(*tp);
    let mut next = 1usize;
    for n in partition {
        let idxs: Vec<LinkIdx> = (next..next + n).map(lidx).collect();
        next += n;
        p.extend(net, &idxs).map_err(|e| format!("extend failed: {e}"))?;
    }
    let _ = c;
    Ok(p)
}

pub struct Eval {
    pub viol: Vec<(String, String, &'static str)>, // key, what, property
    pub n_points: usize,
    pub sig: String,
    pub checks: u64,
}

/// classify each restriction relative to the reference profile of the restrictions inserted before it
fn signature(c: &Case, ints: &[(f64, f64, f64)]) -> String {
    let mut classes: Vec<String> = vec![];
    for i in 0..ints.len() {
        let (s, e, v) = ints[i];
        if v >= c.speed_max {
            classes.push("F".into()); // filtered by speed_max
            continue;
        }
        let prev: Vec<(f64, f64, f64)> = ints[..i].iter().filter(|x| x.2 < c.speed_max).cloned().collect();
        let mut bps: Vec<f64> = vec![0.0];
        for (a, b, _) in &prev {
            bps.push(*a);
            bps.push(*b);
        }
        bps.sort_by(|a, b| a.partial_cmp(b).unwrap());
        bps.dedup();
        // only breakpoints where the reference really changes
        let real: Vec<f64> = bps
            .iter()
            .cloned()
            .filter(|b| *b == 0.0 || ref_at(&prev, c.speed_max, *b - 1.0) != ref_at(&prev, c.speed_max, *b + 1.0))
            .collect();
        let last = *real.last().unwrap();
        let start_on = real.iter().any(|b| *b == s);
        let end_on = real.iter().any(|b| *b == e);
        let inside = real.iter().filter(|b| **b > s && **b < e).count().min(2);
        let lowers_start = v < ref_at(&prev, c.speed_max, s + 1.0);
        let lowers_end = v < ref_at(&prev, c.speed_max, e - 1.0);
        let pos = if s > last {
            "A"
        } else if s == last {
            "L"
        } else {
            "I"
        };
        classes.push(format!("{}{}{}{}{}{}", pos, start_on as u8, end_on as u8, inside, lowers_start as u8, lowers_end as u8));
    }
    classes.sort();
    classes.dedup();
    classes.join(",")
}

pub fn evaluate(c: &Case, net: &Network, tp: &TrainParams, want_sig: bool) -> Eval {
    let mut ev = Eval { viol: vec![], n_points: 0, sig: String::new(), checks: 0 };
    let fam = format!("{}:{}", if c.links.len() == 1 { "single" } else { "route" }, if c.head_end { "head" } else { "tail" });
    let path = match guarded(|| build_path(c, net, tp, &c.partition)) {
        Ok(Ok(p)) => p,
        Ok(Err(e)) => {
            ev.viol.push((format!("valid-route-rejected@PathTpc::extend:{fam}"), e, "C02"));
            return ev;
        }
        Err(p) => {
            ev.viol.push((format!("panic@PathTpc::extend:{fam}"), format!("panic: {p}"), "C02"));
            return ev;
        }
    };
    let pts: Vec<(f64, f64)> = path.speed_points().iter().map(|p| (p.offset.value, p.speed_limit.value)).collect();
    ev.n_points = pts.len();
    let ints = ref_intervals(c, tp);
    if want_sig {
        ev.sig = signature(c, &ints);
    }
    // union of breakpoints
    let mut bps: Vec<f64> = vec![0.0];
    for (s, e, _) in &ints {
        bps.push(*s);
        bps.push(*e);
    }
    for (o, _) in &pts {
        bps.push(*o);
    }
    bps.sort_by(|a, b| a.partial_cmp(b).unwrap());
    bps.dedup();
    let mut xs: Vec<f64> = bps.windows(2).map(|w| 0.5 * (w[0] + w[1])).collect();
    xs.push(bps.last().unwrap() + 1.0);
    let mut above = None;
    let mut below = None;
    for x in xs {
        let r = ref_at(&ints, c.speed_max, x);
        let i = impl_at(&pts, x).abs();
        ev.checks += 1;
        if i > r && above.is_none() {
            above = Some((x, i, r));
        }
        if i < r && below.is_none() {
            below = Some((x, i, r));
        }
    }
    if let Some((x, i, r)) = above {
        ev.viol.push((
            format!("enforced-above-posted@speed_points:{fam}"),
            format!("at x={x} m the enforced limit is {i} m/s but the tightest posted limit is {r} m/s; profile={:?}", pts),
            "C02",
        ));
    }
    if let Some((x, i, r)) = above {
        // C13 states equality with the tightest restriction: an enforced limit above it breaks C13 as well
        ev.viol.push((
            format!("enforced-above-tightest@speed_points:{fam}"),
            format!("at x={x} m the enforced limit is {i} m/s but the tightest posted limit is {r} m/s; profile={:?}", pts),
            "C13",
        ));
    }
    if let Some((x, i, r)) = below {
        ev.viol.push((
            format!("enforced-below-tightest@speed_points:{fam}"),
            format!("at x={x} m the enforced limit is {i} m/s but the tightest posted limit is {r} m/s; profile={:?}", pts),
            "C13",
        ));
    }
    // canonical form
    ev.checks += 3;
    if pts[0].0 != 0.0 {
        ev.viol.push((format!("profile-not-starting-at-zero@speed_points:{fam}"), format!("profile={:?}", pts), "C13"));
    }
    if pts.windows(2).any(|w| w[0].0 > w[1].0) {
        ev.viol.push((format!("profile-unsorted@speed_points:{fam}"), format!("profile={:?}", pts), "C13"));
    }
    let any_negative = c.links.iter().any(|l| l.iter().any(|r| r.2 < 0.0));
    if !any_negative && pts.windows(2).any(|w| w[0].1 == w[1].1) {
        ev.viol.push((format!("redundant-equal-neighbours@speed_points:{fam}"), format!("profile={:?}", pts), "C13"));
    }
    // the library's own validity predicate must accept what it built
    if path.speed_points().validate().is_err() {
        ev.viol.push((format!("profile-fails-own-validation@speed_points:{fam}"), format!("profile={:?}", pts), "C13"));
    }
    // differential: any other composition of the route gives the identical PathTpc
    if c.links.len() > 1 {
        let n = c.links.len();
        for mask in 0..(1u32 << (n - 1)) {
            let mut part = vec![];
            let mut run = 1usize;
            for b in 0..(n - 1) {
                if mask & (1 << b) != 0 {
                    part.push(run);
                    run = 1;
                } else {
                    run += 1;
                }
            }
            part.push(run);
            if part == c.partition {
                continue;
            }
            ev.checks += 1;
            match guarded(|| build_path(c, net, tp, &part)) {
                Ok(Ok(p2)) => {
                    if p2 != path {
                        let pts2: Vec<(f64, f64)> = p2.speed_points().iter().map(|p| (p.offset.value, p.speed_limit.value)).collect();
                        ev.viol.push((
                            format!("extension-partition-differs@PathTpc::extend:{fam}"),
                            format!("partition {:?} gives {:?}, partition {:?} gives {:?}", c.partition, pts, part, pts2),
                            "C02",
                        ));
                    }
                }
                Ok(Err(e)) => ev.viol.push((format!("valid-route-rejected@PathTpc::extend:{fam}"), format!("partition {:?}: {e}", part), "C02")),
                Err(p) => ev.viol.push((format!("panic@PathTpc::extend:{fam}"), format!("partition {:?}: panic: {p}", part), "C02")),
            }
        }
    }
    ev
}

fn triples(g: u32) -> Vec<(u32, u32, f64)> {
    triples_with(g, &SPEEDS)
}

fn triples_with(g: u32, speeds: &[f64]) -> Vec<(u32, u32, f64)> {
    let mut t = vec![];
    // zero-length (point) restrictions s == e are valid speed limits: a head-end one binds nowhere, a tail-end one
    // binds over the train length behind it
    for s in 0..=g {
        for e in s..=g {
            for v in speeds {
                t.push((s, e, *v));
            }
        }
    }
    t
}

/// all sorted restriction lists with <= r elements and pairwise distinct (start,end) pairs that start
/// with the index prefix `prefix` (non-empty); `exact`: only the prefix itself
fn for_each_set(tri: &[(u32, u32, f64)], first: Option<usize>, r: usize, f: &mut dyn FnMut(&[(u32, u32, f64)])) {
    match first {
        None => f(&[]),
        Some(i) => for_each_set_prefix(tri, &[i], false, r, f),
    }
}
fn for_each_set_prefix(tri: &[(u32, u32, f64)], prefix: &[usize], exact: bool, r: usize, f: &mut dyn FnMut(&[(u32, u32, f64)])) {
    fn rec(tri: &[(u32, u32, f64)], cur: &mut Vec<(u32, u32, f64)>, from: usize, r: usize, f: &mut dyn FnMut(&[(u32, u32, f64)])) {
        f(cur);
        if cur.len() >= r {
            return;
        }
        let last = *cur.last().unwrap();
        for i in from..tri.len() {
            if tri[i].0 == last.0 && tri[i].1 == last.1 {
                continue;
            }
            cur.push(tri[i]);
            rec(tri, cur, i + 1, r, f);
            cur.pop();
        }
    }
    if prefix.len() > r {
        return;
    }
    let mut cur: Vec<(u32, u32, f64)> = prefix.iter().map(|&i| tri[i]).collect();
    // the prefix itself must be a legal list
    for w in cur.windows(2) {
        if w[0].0 == w[1].0 && w[0].1 == w[1].1 {
            return;
        }
    }
    if exact {
        f(&cur);
    } else {
        rec(tri, &mut cur, prefix.last().unwrap() + 1, r, f);
    }
}

pub struct C02C13 {
    pub which: &'static str,
}

struct Family {
    g: u32,
    r: usize,
    speed_maxes: Vec<f64>,
    train_lens: Vec<u32>,
    /// speeds {5, -10, 15, -15}: negative values are limits of that magnitude
    negative: bool,
}

fn families(tier: Tier) -> Vec<Family> {
    match tier {
        Tier::Quick => vec![
            Family { g: 6, r: 4, speed_maxes: vec![12.0, 20.0], train_lens: vec![1, 3], negative: false },
            Family { g: 8, r: 3, speed_maxes: vec![15.0, 20.0], train_lens: vec![1, 3], negative: false },
            Family { g: 5, r: 3, speed_maxes: vec![12.0, 20.0], train_lens: vec![1], negative: true },
        ],
        Tier::Thorough => vec![
            Family { g: 6, r: 4, speed_maxes: vec![12.0, 15.0, 20.0], train_lens: vec![1, 3], negative: false },
            Family { g: 8, r: 4, speed_maxes: vec![12.0, 20.0], train_lens: vec![1, 3], negative: false },
            Family { g: 10, r: 3, speed_maxes: vec![12.0, 20.0], train_lens: vec![1, 3], negative: false },
            Family { g: 7, r: 5, speed_maxes: vec![20.0], train_lens: vec![2], negative: false },
            Family { g: 6, r: 4, speed_maxes: vec![12.0, 20.0], train_lens: vec![1, 3], negative: true },
        ],
    }
}

impl C02C13 {
    fn report(&self, ctx: &mut Ctx, c: &Case, ev: &Eval) {
        for (key, what, prop) in &ev.viol {
            if *prop == self.which {
                let size = c.links.iter().map(|l| l.len() as u64).sum::<u64>() * 10 + c.links.len() as u64;
                ctx.violation(key, what.clone(), serde_json::to_value(c).unwrap(), size);
            }
        }
    }

    fn run_one(&self, ctx: &mut Ctx, c: &Case, net: &Network, tp: &TrainParams, n: &mut u64) {
        let want_sig = *n % 7 == 0 || c.links.len() > 1;
        *n += 1;
        let ev = evaluate(c, net, tp, want_sig);
        ctx.state();
        ctx.evaluation();
        ctx.stats.transitions += c.links.iter().map(|l| l.len() as u64).sum::<u64>();
        ctx.checks(ev.checks);
        if want_sig {
            ctx.sig(&ev.sig);
        }
        if !ev.viol.is_empty() {
            self.report(ctx, c, &ev);
        }
        ctx.sample(|| serde_json::to_value(c).unwrap());
    }
}

impl Prop for C02C13 {
    fn id(&self) -> &'static str {
        self.which
    }
    fn rule(&self, tier: Tier) -> String {
        let fams: Vec<String> = families(tier).iter().map(|f| format!("G={} r<={} speed_max in {:?} train_len in {:?}", f.g, f.r, f.speed_maxes, f.train_lens)).collect();
        format!(
            "E-SHAPE: every sorted restriction list (start<=end, zero-length ones included, on a 0..G grid of 100 m units, speed in {{5,10,15}} m/s, distinct (start,end) pairs) x head/tail-end x train length x speed_max x speed_set/speed_sets style, single link [{}]; gating: every LimitType x CompareType x train value below/equal/above, and every ORDERED PAIR of such conditions on one speed set (the set applies only if both hold); routes of 2 links (r<=2 each) and 3 links (r<=1 each) of 4 units with every composition into extend calls; one real PathTpc::extend pipeline per element. A case is non-trivial/distinct by its signature = set of per-restriction classes (position after/at/inside the existing profile, start/end on an existing breakpoint, breakpoints covered, lowers at start/end, filtered by speed_max) computed against the reference profile of the restrictions before it.",
            fams.join("; ")
        )
    }
    fn assumptions(&self) -> Vec<String> {
        vec![
            "reference = pointwise min(speed_max, applicable restrictions covering x), half-open [start, end(+train length for tail-end sets)); compared at midpoints between consecutive breakpoints only (DESIGN 1.6)".into(),
            "negative speeds are outside the generated domain".into(),
            "restriction positions on a 100 m grid; speeds from {5,10,15} m/s; continuous positions between grid points are not covered".into(),
        ]
    }
    fn wall_cap_s(&self, tier: Tier) -> u64 {
        match tier {
            Tier::Quick => 120,
            Tier::Thorough => 1800,
        }
    }

    fn explore(&self, ctx: &mut Ctx) {
        let mut n = 0u64;
        // ---- train parameters derived from a train configuration (car types with and without cars) ----
        {
            let tri = triples(6);
            for (nf, ns, vmax) in [(5u32, 0u32, 20.0f64), (5, 1, 12.0), (0, 5, 12.0)] {
                for head in [true, false] {
                    if !ctx.claim() {
                        continue;
                    }
                    let mut c = Case { link_len: vec![6], links: vec![vec![]], train_len: 1, head_end: head, speed_max: vmax, map_style: false, gate: None, gate2: None, partition: vec![1], cfg: Some((nf, ns)) };
                    let tp = match case_train_params(&c) {
                        Ok(tp) => tp,
                        Err(e) => {
                            ctx.violation("valid-train-rejected@TrainConfig::make_train_params", e, serde_json::to_value(&c).unwrap(), 0);
                            continue;
                        }
                    };
                    for a in 0..tri.len() {
                        c.links[0] = vec![tri[a]];
                        let net = build_network(&c);
                        self.run_one(ctx, &c, &net, &tp, &mut n);
                        for b in (a + 1)..tri.len() {
                            c.links[0] = vec![tri[a], tri[b]];
                            let net = build_network(&c);
                            self.run_one(ctx, &c, &net, &tp, &mut n);
                        }
                    }
                }
            }
        }
        // ---- single link ----
        for fam in families(ctx.tier) {
            let tri = if fam.negative { triples_with(fam.g, &[5.0, -10.0, 15.0, -15.0]) } else { triples(fam.g) };
            for &speed_max in &fam.speed_maxes {
                for &tl in &fam.train_lens {
                    for head in [true, false] {
                        for map_style in [false, true] {
                            // the map style is a lookup difference only: cover it on r<=2
                            let r = if map_style { fam.r.min(2) } else { fam.r };
                            let tp = train_params(tl as f64 * UNIT_M, speed_max);
                            // (a link without any speed limit is not a valid network: validation demands a real speed set)
                            // case granularity: (first) alone, then every (first, second) subtree
                            let mut prefixes: Vec<(Vec<usize>, bool)> = vec![];
                            for a in 0..tri.len() {
                                prefixes.push((vec![a], true));
                                if r >= 2 {
                                    for b in (a + 1)..tri.len() {
                                        prefixes.push((vec![a, b], false));
                                    }
                                }
                            }
                            for (prefix, exact) in prefixes {
                                if !ctx.claim() {
                                    continue;
                                }
                                let mut c = Case {
                                    link_len: vec![fam.g],
                                    links: vec![vec![]],
                                    train_len: tl,
                                    head_end: head,
                                    speed_max,
                                    map_style,
                                    gate: None,
                                    gate2: None,
                                    partition: vec![1],
                                    cfg: None,
                                };
                                let mut net = build_network(&c);
                                let mut any = false;
                                for_each_set_prefix(&tri, &prefix, exact, r, &mut |set| {
                                    c.links[0] = set.to_vec();
                                    net = build_network(&c);
                                    any = true;
                                    self.run_one(ctx, &c, &net, &tp, &mut n);
                                });
                                if !any {
                                    continue;
                                }
                                // bind: the same case through the real loader (Network::from_json validates)
                                let js = serde_json::to_string(&net).unwrap();
                                match <Network as altrios_core::traits::SerdeAPI>::from_json(&js) {
                                    Ok(net2) => {
                                        let p1 = build_path(&c, &net, &tp, &c.partition);
                                        let p2 = build_path(&c, &net2, &tp, &c.partition);
                                        match (p1, p2) {
                                            (Ok(a), Ok(b)) if a == b => ctx.validated(),
                                            (a, b) => ctx.machinery_error(format!("loader-bound path differs from directly built path for {:?}: {:?} vs {:?}", c, a.is_ok(), b.is_ok())),
                                        }
                                    }
                                    Err(e) => {
                                        let key = "valid-network-rejected@Network::from_json:single";
                                        if self.which == "C02" {
                                            ctx.violation(key, format!("{e}"), serde_json::to_value(&c).unwrap(), 1);
                                        }
                                    }
                                }
                            }
                        }
                    }
                }
            }
        }
        // ---- gating ----
        {
            let g = 6u32;
            let tri = triples(g);
            let tp = train_params(2.0 * UNIT_M, 20.0);
            for lt in LIMIT_TYPES {
                for ct in COMPARE_TYPES {
                    let tv = match lt {
                        "MassTotal" => tp.towed_mass_static.value,
                        "MassPerBrake" => tp.mass_per_brake.value,
                        _ => tp.axle_count as f64,
                    };
                    for rel in [-1.0, 0.0, 1.0] {
                        if !ctx.claim() {
                            continue;
                        }
                        let limit_val = tv + rel; // one unit below / equal / above the train's value
                        let mut c = Case {
                            link_len: vec![g],
                            links: vec![vec![]],
                            train_len: 2,
                            head_end: false,
                            speed_max: 20.0,
                            map_style: true,
                            gate: Some(Gate { limit_type: lt.into(), compare_type: ct.into(), limit_val }),
                            gate2: None,
                            partition: vec![1],
                            cfg: None,
                        };
                        for first in (0..tri.len()).map(Some) {
                            for_each_set(&tri, first, if ctx.tier.is_thorough() { 2 } else { 1 }, &mut |set| {
                                c.links[0] = set.to_vec();
                                let net = build_network(&c);
                                let applies = ref_gate_applies(c.gate.as_ref().unwrap(), &tp);
                                ctx.sig(&format!("gate:{lt}:{ct}:{rel}:{applies}"));
                                self.run_one(ctx, &c, &net, &tp, &mut n);
                            });
                        }
                    }
                }
            }
        }
        // ---- two conditions on one speed set: every ordered pair of (type, comparison, below/equal/above) ----
        {
            let g = 4u32;
            let tri = triples(g);
            let tp = train_params(2.0 * UNIT_M, 20.0);
            let mut gates: Vec<(Gate, String)> = vec![];
            for lt in LIMIT_TYPES {
                for ct in COMPARE_TYPES {
                    let tv = match lt {
                        "MassTotal" => tp.towed_mass_static.value,
                        "MassPerBrake" => tp.mass_per_brake.value,
                        _ => tp.axle_count as f64,
                    };
                    for rel in [-1.0, 0.0, 1.0] {
                        gates.push((Gate { limit_type: lt.into(), compare_type: ct.into(), limit_val: tv + rel }, format!("{lt}:{ct}:{rel}")));
                    }
                }
            }
            for (g1, _) in &gates {
                if !ctx.claim() {
                    continue;
                }
                for (g2, _) in &gates {
                    let mut c = Case {
                        link_len: vec![g],
                        links: vec![vec![]],
                        train_len: 2,
                        head_end: false,
                        speed_max: 20.0,
                        map_style: false,
                        gate: Some(g1.clone()),
                        gate2: Some(g2.clone()),
                        partition: vec![1],
                        cfg: None,
                    };
                    let (a1, a2) = (ref_gate_applies(g1, &tp), ref_gate_applies(g2, &tp));
                    ctx.sig(&format!("gate-pair:{a1}:{a2}"));
                    for first in (0..tri.len()).map(Some) {
                        for_each_set(&tri, first, 1, &mut |set| {
                            c.links[0] = set.to_vec();
                            let net = build_network(&c);
                            self.run_one(ctx, &c, &net, &tp, &mut n);
                        });
                    }
                }
            }
        }
        // ---- routes: 2 links r<=2 each, 3 links r<=1 each; all compositions (differential) ----
        {
            let g = 4u32;
            let tri = triples(g);
            let mut sets2: Vec<Vec<(u32, u32, f64)>> = vec![];
            for first in (0..tri.len()).map(Some) {
                for_each_set(&tri, first, 2, &mut |s| sets2.push(s.to_vec()));
            }
            let mut sets1: Vec<Vec<(u32, u32, f64)>> = vec![];
            for first in (0..tri.len()).map(Some) {
                for_each_set(&tri, first, 1, &mut |s| sets1.push(s.to_vec()));
            }
            let train_lens: Vec<u32> = if ctx.tier.is_thorough() { vec![1, 3, 5] } else { vec![1, 5] };
            for &tl in &train_lens {
                for head in [true, false] {
                    if head && tl != 1 {
                        continue; // train length is irrelevant for head-end sets
                    }
                    let tp = train_params(tl as f64 * UNIT_M, 20.0);
                    // 2 links
                    let a_sets: &Vec<Vec<(u32, u32, f64)>> = if ctx.tier.is_thorough() { &sets2 } else { &sets1 };
                    for a in a_sets {
                        if !ctx.claim() {
                            continue;
                        }
                        for b in &sets2 {
                            let c = Case {
                                link_len: vec![g, g],
                                links: vec![a.clone(), b.clone()],
                                train_len: tl,
                                head_end: head,
                                speed_max: 20.0,
                                map_style: false,
                                gate: None,
                                    gate2: None,
                                partition: vec![2],
                                cfg: None,
                            };
                            let net = build_network(&c);
                            self.run_one(ctx, &c, &net, &tp, &mut n);
                        }
                    }
                    // 3 links
                    for a in &sets1 {
                        if !ctx.claim() {
                            continue;
                        }
                        for b in &sets1 {
                            for d in &sets1 {
                                let c = Case {
                                    link_len: vec![g, g, g],
                                    links: vec![a.clone(), b.clone(), d.clone()],
                                    train_len: tl,
                                    head_end: head,
                                    speed_max: 20.0,
                                    map_style: false,
                                    gate: None,
                                    gate2: None,
                                    partition: vec![3],
                                    cfg: None,
                                };
                                let net = build_network(&c);
                                self.run_one(ctx, &c, &net, &tp, &mut n);
                            }
                        }
                    }
                }
            }
        }
        ctx.finish();
    }

    fn replay(&self, case: &Value) -> ReplayOutcome {
        let c: Case = match serde_json::from_value(case.clone()) {
            Ok(c) => c,
            Err(e) => return ReplayOutcome { violations: vec![("bad-replay-file".into(), e.to_string())], observation: String::new() },
        };
        let tp = match case_train_params(&c) {
            Ok(tp) => tp,
            Err(e) => return ReplayOutcome { violations: vec![("valid-train-rejected@TrainConfig::make_train_params".into(), e)], observation: String::new() },
        };
        let net = build_network(&c);
        let mut ev = evaluate(&c, &net, &tp, false);
        let js = serde_json::to_string(&net).unwrap();
        if let Err(e) = <Network as altrios_core::traits::SerdeAPI>::from_json(&js) {
            ev.viol.push(("valid-network-rejected@Network::from_json:single".into(), format!("{e}"), "C02"));
        }
        let obs = match guarded(|| build_path(&c, &net, &tp, &c.partition)) {
            Ok(Ok(p)) => format!("{:?}", p.speed_points().iter().map(|p| (p.offset.value, p.speed_limit.value)).collect::<Vec<_>>()),
            Ok(Err(e)) => format!("err: {e}"),
            Err(p) => format!("panic: {p}"),
        };
        ReplayOutcome {
            violations: ev.viol.iter().filter(|v| v.2 == self.which).map(|v| (v.0.clone(), v.1.clone())).collect(),
            observation: obs,
        }
    }
}

pub fn _unused(_: Value) -> Value {
    json!(null)
}
#[allow(dead_code)]
fn _u() {
    let _ = uc::M;
}
