//! C20: mass and traction-limit parameters stay mutually consistent under every update.
//! Explicit-state search (BFS with deduplication on the serialized object) over setter sequences on the
//! components and on `Locomotive`; roll-ups for `Consist` and `TrainSimBuilder`.

use crate::domain::net::*;
use crate::domain::train::*;
use crate::engine::{close_tol, guarded, Ctx, Prop, ReplayOutcome, Tier};
use altrios_core::consist::locomotive::powertrain::fuel_converter::FuelConverter;
use altrios_core::consist::locomotive::powertrain::generator::Generator;
use altrios_core::consist::locomotive::powertrain::reversible_energy_storage::ReversibleEnergyStorage;
use altrios_core::consist::locomotive::{ForceMaxSideEffect, Locomotive, MuSideEffect};
use altrios_core::consist::Consist;
use altrios_core::train::{InitTrainState, SpeedTrace};
use altrios_core::traits::{Mass, MassSideEffect, SerdeAPI};
use altrios_core::uc;
use serde::{Deserialize, Serialize};
use serde_json::Value;
use std::collections::{BTreeMap, VecDeque};

pub const G: f64 = 9.801_548_494_963_14;
const M1: f64 = 100_000.0;
const M2: f64 = 200_000.0;
const MU1: f64 = 0.3;
const MU2: f64 = 0.25;
const F1: f64 = 500_000.0;
/// a force that is consistent with (MU1, M1)
const F2: f64 = MU1 * M1 * G;

#[derive(Debug, Clone, Serialize, Deserialize, PartialEq)]
pub struct Case {
    /// "fc" | "gen" | "res" | "conv" | "bel" | "dummy" | "rollup"
    pub subject: String,
    /// index of the initial state
    pub init: usize,
    pub actions: Vec<usize>,
}

pub type Fails = Vec<(String, String)>;

fn effect(k: usize) -> MassSideEffect {
    match k {
        0 => MassSideEffect::None,
        1 => MassSideEffect::Extensive,
        _ => MassSideEffect::Intensive,
    }
}

// ------------------------------------------------------------------------------------------ components
pub trait Comp: Clone + Serialize + Mass {
    fn extensive(&self) -> f64;
    fn spec_key() -> &'static str;
    fn name() -> &'static str;
    fn from_json_str(s: &str) -> Result<Self, String>;
    fn default_obj() -> Self;
}
impl Comp for FuelConverter {
    fn extensive(&self) -> f64 {
        self.pwr_out_max.value
    }
    fn spec_key() -> &'static str {
        "specific_pwr"
    }
    fn name() -> &'static str {
        "fc"
    }
    fn from_json_str(s: &str) -> Result<Self, String> {
        FuelConverter::from_json(s).map_err(|e| format!("{e:#}"))
    }
    fn default_obj() -> Self {
        FuelConverter::default()
    }
}
impl Comp for Generator {
    fn extensive(&self) -> f64 {
        self.pwr_out_max.value
    }
    fn spec_key() -> &'static str {
        "specific_pwr"
    }
    fn name() -> &'static str {
        "gen"
    }
    fn from_json_str(s: &str) -> Result<Self, String> {
        Generator::from_json(s).map_err(|e| format!("{e:#}"))
    }
    fn default_obj() -> Self {
        Generator::default()
    }
}
impl Comp for ReversibleEnergyStorage {
    fn extensive(&self) -> f64 {
        self.energy_capacity.value
    }
    fn spec_key() -> &'static str {
        "specific_energy"
    }
    fn name() -> &'static str {
        "res"
    }
    fn from_json_str(s: &str) -> Result<Self, String> {
        ReversibleEnergyStorage::from_json(s).map_err(|e| format!("{e:#}"))
    }
    fn default_obj() -> Self {
        ReversibleEnergyStorage::default()
    }
}

fn spec_of<T: Comp>(x: &T) -> Option<f64> {
    serde_json::to_value(x).ok().and_then(|v| v.get(T::spec_key()).and_then(|s| s.as_f64()))
}
fn raw_mass_of<T: Serialize>(x: &T) -> Option<f64> {
    serde_json::to_value(x).ok().and_then(|v| v.get("mass").and_then(|s| s.as_f64()))
}

/// initial component states: (mass?, specific?) incl. a redundant-and-inconsistent file (must be rejected at load)
fn comp_inits<T: Comp>() -> Vec<Result<T, String>> {
    let base = serde_json::to_value(T::default_obj()).unwrap();
    let ext = T::default_obj().extensive();
    let mut out = vec![];
    for (mass, spec) in [(None, None), (Some(M1), None), (None, Some(ext / M1)), (Some(M1), Some(ext / M1)), (Some(M2), Some(ext / M1))] {
        let mut v = base.clone();
        v["mass"] = serde_json::json!(mass);
        v[T::spec_key()] = serde_json::json!(spec);
        out.push(T::from_json_str(&v.to_string()));
    }
    out
}

fn comp_apply<T: Comp>(x: &mut T, a: usize) -> Result<(), String> {
    // 0..8: set_mass(None|M1|M2, None|Extensive|Intensive); 9: expunge
    if a == 9 {
        x.expunge_mass_fields();
        return Ok(());
    }
    let m = [None, Some(M1 * uc::KG), Some(M2 * uc::KG)][a / 3];
    x.set_mass(m, effect(a % 3)).map_err(|e| format!("{e:#}"))
}

fn comp_check<T: Comp>(before: &T, after: &T, a: usize, res: &Result<(), String>, checks: &mut u64) -> Fails {
    let mut f: Fails = vec![];
    let n = T::name();
    let jb = serde_json::to_string(before).unwrap();
    let ja = serde_json::to_string(after).unwrap();
    *checks += 1;
    if res.is_err() {
        if jb != ja {
            f.push((format!("rejected-update-mutates@{n}::set_mass"), format!("action {a} returned Err but the object changed")));
        }
        return f;
    }
    // (i) reported-value consistency after an accepted update
    *checks += 2;
    match (after.mass(), after.derived_mass()) {
        (Ok(m), Ok(d)) => {
            if let (Some(m), Some(d)) = (m, d) {
                if !close_tol(m.value, d.value, 1e-8, 1e-8) {
                    f.push((format!("mass-differs-from-derived-mass@{n}"), format!("mass {} derived {}", m.value, d.value)));
                }
            }
        }
        (Err(e), _) | (_, Err(e)) => f.push((format!("accepted-update-left-inconsistent-state@{n}::set_mass"), format!("action {a} was accepted but the mass getter now fails: {}", format!("{e:#}").chars().take(120).collect::<String>()))),
    }
    // (ii) documented side effect
    if a < 9 {
        let new = [None, Some(M1), Some(M2)][a / 3];
        let eff = a % 3;
        let (sb, sa) = (spec_of(before), spec_of(after));
        let (eb, ea) = (before.extensive(), after.extensive());
        *checks += 3;
        if raw_mass_of(after) != new {
            f.push((format!("mass-not-set@{n}::set_mass"), format!("set_mass({new:?}) accepted but stored mass is {:?}", raw_mass_of(after))));
        }
        match (new, sb) {
            (Some(m), Some(s)) if !close_tol(eb / s, m, 0.0, 0.0) => match eff {
                1 => {
                    if !(close_tol(ea, s * m, 1e-12, 0.0) && sa == Some(s)) {
                        f.push((format!("extensive-side-effect-wrong@{n}::set_mass"), format!("expected extensive = specific*mass = {} with specific unchanged {}, got extensive {} specific {:?}", s * m, s, ea, sa)));
                    }
                }
                2 => {
                    if !(sa.map(|x| close_tol(x, eb / m, 1e-12, 0.0)).unwrap_or(false) && ea == eb) {
                        f.push((format!("intensive-side-effect-wrong@{n}::set_mass"), format!("expected specific = extensive/mass = {} with extensive unchanged {}, got specific {:?} extensive {}", eb / m, eb, sa, ea)));
                    }
                }
                _ => {
                    if !(sa.is_none() && ea == eb) {
                        f.push((format!("none-side-effect-wrong@{n}::set_mass"), format!("expected the specific value to be dropped and the extensive one unchanged, got {:?} / {}", sa, ea)));
                    }
                }
            },
            (Some(_), _) => {
                if !(sa == sb && ea == eb) {
                    f.push((format!("unneeded-side-effect@{n}::set_mass"), format!("nothing had to change but specific {:?}->{:?}, extensive {}->{}", sb, sa, eb, ea)));
                }
            }
            (None, _) => {
                if ea != eb {
                    f.push((format!("unneeded-side-effect@{n}::set_mass"), format!("extensive {}->{}", eb, ea)));
                }
            }
        }
    }
    f
}

// ------------------------------------------------------------------------------------------ locomotive
fn loco_field(l: &Locomotive, k: &str) -> Option<f64> {
    serde_json::to_value(l).ok().and_then(|v| v.get(k).and_then(|s| s.as_f64()))
}

fn loco_inits(kind: &str) -> Vec<Result<Locomotive, String>> {
    let base_l = match kind {
        "conv" => Locomotive::default(),
        "bel" => Locomotive::default_battery_electric_loco(),
        "hyb" => Locomotive::default_hybrid_electric_loco(),
        _ => {
            let mut v = serde_json::to_value(Locomotive::default()).unwrap();
            v["loco_type"] = serde_json::json!({"DummyLoco": {}});
            serde_json::from_value(v).unwrap()
        }
    };
    let base = serde_json::to_value(&base_l).unwrap();
    let mut out = vec![];
    // (mass, mu, force_max, component masses + baseline/ballast?)
    for (mass, mu, force, comps) in [
        (None, None, F1, false),
        (Some(M1), None, F1, false),
        (None, Some(MU1), F1, false),
        (Some(M1), Some(MU1), F2, false),
        (Some(M1), Some(MU1), F1, false), // force inconsistent with mu*mass*g: the file loads (init only checks mass)
        (None, None, F1, true),
        (Some(M2), Some(MU2), MU2 * M2 * G, true), // mass disagrees with the derived mass: must be rejected at load
        (None, Some(MU1), F1, true),
    ] {
        let mut v = base.clone();
        v["mass"] = serde_json::json!(mass);
        v["mu"] = serde_json::json!(mu);
        v["force_max"] = serde_json::json!(force);
        if comps && kind != "dummy" {
            // component masses 10 t each + baseline 50 t + ballast 20 t
            v["baseline_mass"] = serde_json::json!(50_000.0);
            v["ballast_mass"] = serde_json::json!(20_000.0);
            let lt = v["loco_type"].as_object_mut().unwrap();
            for (_, inner) in lt.iter_mut() {
                for comp in ["fc", "gen", "res"] {
                    if let Some(c) = inner.get_mut(comp) {
                        c["mass"] = serde_json::json!(10_000.0);
                    }
                }
            }
        } else if comps {
            continue;
        }
        out.push(serde_json::from_value::<Locomotive>(v).map_err(|e| e.to_string()).and_then(|mut l| l.init().map(|_| l).map_err(|e| format!("{e:#}"))));
    }
    out
}

pub const N_LOCO_ACTIONS: usize = 20;
fn loco_apply(l: &mut Locomotive, a: usize) -> Result<(), String> {
    let r = match a {
        0 => l.set_mass(None, MassSideEffect::None),
        1 => l.set_mass(Some(M1 * uc::KG), MassSideEffect::None),
        2 => l.set_mass(Some(M2 * uc::KG), MassSideEffect::None),
        3 => l.set_mass(Some(M1 * uc::KG), MassSideEffect::Extensive),
        4..=9 => {
            let mu = if (a - 4) / 3 == 0 { MU1 } else { MU2 };
            let e = match (a - 4) % 3 {
                0 => MuSideEffect::Mass,
                1 => MuSideEffect::ForceMax,
                _ => MuSideEffect::SetMassToNone,
            };
            l.set_mu(mu * uc::R, e)
        }
        _ => {
            let f = if (a - 10) / 5 == 0 { F1 } else { F2 };
            let e = match (a - 10) % 5 {
                0 => ForceMaxSideEffect::Mass,
                1 => ForceMaxSideEffect::UpdateMu,
                2 => ForceMaxSideEffect::SetMuToNone,
                3 => ForceMaxSideEffect::SetMassToNone,
                _ => ForceMaxSideEffect::SetMassAndMuToNone,
            };
            l.set_force_max(f * uc::N, e)
        }
    };
    r.map_err(|e| format!("{e:#}"))
}
fn loco_action_name(a: usize) -> String {
    match a {
        0 => "set_mass(None)".into(),
        1 => "set_mass(M1)".into(),
        2 => "set_mass(M2)".into(),
        3 => "set_mass(M1, Extensive)".into(),
        4..=9 => format!("set_mu({}, {})", if (a - 4) / 3 == 0 { "MU1" } else { "MU2" }, ["Mass", "ForceMax", "SetMassToNone"][(a - 4) % 3]),
        _ => format!("set_force_max({}, {})", if (a - 10) / 5 == 0 { "F1" } else { "F2" }, ["Mass", "UpdateMu", "SetMuToNone", "SetMassToNone", "SetMassAndMuToNone"][(a - 10) % 5]),
    }
}

/// what the getters report: (mass, mu, force) each Ok(Some/None) or Err
fn loco_report(l: &Locomotive) -> (Result<Option<f64>, String>, Result<Option<f64>, String>, Result<f64, String>) {
    (l.mass().map(|m| m.map(|x| x.value)).map_err(|e| format!("{e:#}")), l.mu().map(|m| m.map(|x| x.value)).map_err(|e| format!("{e:#}")), l.force_max().map(|x| x.value).map_err(|e| format!("{e:#}")))
}

fn loco_check(kind: &str, before: &Locomotive, after: &Locomotive, a: usize, res: &Result<(), String>, checks: &mut u64) -> Fails {
    let mut f: Fails = vec![];
    let site = if a < 4 {
        "Locomotive::set_mass"
    } else if a < 10 {
        "Locomotive::set_mu"
    } else {
        "Locomotive::set_force_max"
    };
    *checks += 1;
    let rb = loco_report(before);
    let ra = loco_report(after);
    if res.is_err() {
        // (iii) rejection means no effect: every getter returns what it returned before
        let same = serde_json::to_string(before).unwrap() == serde_json::to_string(after).unwrap();
        if !same {
            f.push((format!("rejected-update-mutates@{site}"), format!("{} returned Err but the object changed: mass {:?}->{:?}, mu {:?}->{:?}, force_max {:?}->{:?}", loco_action_name(a), rb.0.as_ref().ok(), ra.0.as_ref().ok(), rb.1.as_ref().ok(), ra.1.as_ref().ok(), rb.2.as_ref().ok(), ra.2.as_ref().ok())));
        }
        return f;
    }
    // degenerate: a dummy locomotive reports a derived mass of exactly 0 kg; mu = force/(0*g) is not meaningful
    if ra.0 == Ok(Some(0.0)) || rb.0 == Ok(Some(0.0)) {
        return f;
    }
    // (i) an accepted update never takes an object whose getters all answer into one whose getters fail
    // (the getters themselves enforce mass == derived mass and force_max == mu*mass*g whenever both are stored)
    *checks += 2;
    let before_ok = rb.0.is_ok() && rb.1.is_ok() && rb.2.is_ok();
    let after_ok = ra.0.is_ok() && ra.1.is_ok() && ra.2.is_ok();
    if before_ok && !after_ok {
        f.push((format!("accepted-update-left-inconsistent-state@{site}"), format!("{} was accepted on a consistent object but now mass()={:?} mu()={:?} force_max()={:?}", loco_action_name(a), ra.0.as_ref().map_err(|e| e.chars().take(60).collect::<String>()), ra.1.as_ref().map_err(|e| e.chars().take(60).collect::<String>()), ra.2.as_ref().map_err(|e| e.chars().take(60).collect::<String>()))));
    }
    if let (Ok(Some(m)), Ok(Some(mu)), Ok(fm)) = (&ra.0, &ra.1, &ra.2) {
        // when mass AND mu are stored, the reported force must be their product (stored mass, as the code defines "known")
        if loco_field(after, "mass").is_some() && !close_tol(*fm, mu * m * G, 1e-8, 1e-6) {
            f.push((format!("force-max-not-mu-mass-g@{site}"), format!("force_max {fm} but mu*mass*g = {}", mu * m * G)));
        }
    }
    // (ii) documented side effect of the chosen option
    let (m0, mu0) = (loco_field(before, "mass"), loco_field(before, "mu"));
    let m0_reported = rb.0.clone().ok().flatten();
    let f0 = loco_field(before, "force_max").unwrap_or(f64::NAN);
    let (m1, mu1, f1) = (loco_field(after, "mass"), loco_field(after, "mu"), loco_field(after, "force_max").unwrap_or(f64::NAN));
    *checks += 1;
    let eq = |x: f64, y: f64| close_tol(x, y, 1e-9, 1e-6);
    let oeq = |x: Option<f64>, y: Option<f64>| match (x, y) {
        (Some(a), Some(b)) => eq(a, b),
        (None, None) => true,
        _ => false,
    };
    let mut side = |ok: bool, what: String| {
        if !ok {
            f.push((format!("side-effect-not-as-documented@{site}:{}", loco_action_name(a).replace(' ', "")), what));
        }
    };
    let _ = kind;
    match a {
        1 | 2 => {
            let m = if a == 1 { M1 } else { M2 };
            side(oeq(m1, Some(m)), format!("mass stored {:?}", m1));
            side(oeq(mu1, mu0), format!("mu changed {:?} -> {:?}", mu0, mu1));
            if let Some(mu) = mu1 {
                side(eq(f1, mu * m * G), format!("force_max {f1} not updated to mu*mass*g = {}", mu * m * G));
            }
        }
        4..=9 => {
            let mu = if (a - 4) / 3 == 0 { MU1 } else { MU2 };
            side(oeq(mu1, Some(mu)), format!("mu stored {:?}", mu1));
            match (a - 4) % 3 {
                0 => side(oeq(m1, Some(f0 / (mu * G))) && eq(f1, f0), format!("mass {:?} should be force_max/(mu g) = {} with force_max unchanged ({} -> {})", m1, f0 / (mu * G), f0, f1)),
                1 => side(oeq(m1, m0) && m0_reported.map(|m| eq(f1, mu * m * G)).unwrap_or(false), format!("force_max {f1} should be mu*g*mass with mass {:?}", m0_reported)),
                _ => side(m1.is_none() && eq(f1, f0), format!("mass {:?} should be None, force_max {} -> {}", m1, f0, f1)),
            }
        }
        10..=19 => {
            let fm = if (a - 10) / 5 == 0 { F1 } else { F2 };
            side(eq(f1, fm), format!("force_max stored {f1}, requested {fm}"));
            match (a - 10) % 5 {
                0 => side(oeq(mu1, mu0) && mu0.map(|mu| oeq(m1, Some(fm / (mu * G)))).unwrap_or(false), format!("mass {:?} should be force_max/(mu g) with mu {:?}", m1, mu0)),
                1 => side(oeq(m1, m0) && oeq(mu1, m0.map(|m| fm / (m * G))), format!("mu {:?} should be force_max/(mass g) with mass {:?}", mu1, m0)),
                2 => side(mu1.is_none() && oeq(m1, m0), format!("mu {:?} mass {:?}", mu1, m1)),
                3 => side(m1.is_none() && oeq(mu1, mu0), format!("mu {:?} mass {:?}", mu1, m1)),
                _ => side(m1.is_none() && mu1.is_none(), format!("mu {:?} mass {:?}", mu1, m1)),
            }
        }
        _ => {}
    }
    f
}

// ------------------------------------------------------------------------------------------ search
pub struct SearchOut {
    pub states: u64,
    pub transitions: u64,
    pub max_depth: u64,
    pub checks: u64,
    pub fails: Vec<(String, String, Vec<usize>)>,
    pub sigs: Vec<String>,
    pub load_rejected: bool,
}

fn bfs<T: Clone + Serialize>(root: T, n_actions: usize, depth: usize, apply: &dyn Fn(&mut T, usize) -> Result<(), String>, check: &dyn Fn(&T, &T, usize, &Result<(), String>, &mut u64) -> Fails, name: &str) -> SearchOut {
    let mut out = SearchOut { states: 0, transitions: 0, max_depth: 0, checks: 0, fails: vec![], sigs: vec![], load_rejected: false };
    let mut seen: BTreeMap<String, usize> = BTreeMap::new();
    let mut q: VecDeque<(T, Vec<usize>)> = VecDeque::new();
    seen.insert(serde_json::to_string(&root).unwrap(), 0);
    q.push_back((root, vec![]));
    out.states = 1;
    while let Some((x, path)) = q.pop_front() {
        if path.len() >= depth {
            continue;
        }
        for a in 0..n_actions {
            let mut y = x.clone();
            let r = match guarded(|| apply(&mut y, a)) {
                Ok(r) => r,
                Err(p) => {
                    let mut pth = path.clone();
                    pth.push(a);
                    out.fails.push((format!("panic@{name}"), p.chars().take(200).collect(), pth));
                    continue;
                }
            };
            out.transitions += 1;
            let mut pth = path.clone();
            pth.push(a);
            for (k, w) in check(&x, &y, a, &r, &mut out.checks) {
                if !out.fails.iter().any(|f| f.0 == k) {
                    out.fails.push((k, w, pth.clone()));
                }
            }
            out.sigs.push(format!("{name}:a{a}:{}", if r.is_ok() { "ok" } else { "err" }));
            let key = serde_json::to_string(&y).unwrap();
            if !seen.contains_key(&key) {
                seen.insert(key, pth.len());
                out.states += 1;
                out.max_depth = out.max_depth.max(pth.len() as u64);
                q.push_back((y, pth));
            }
        }
    }
    out.sigs.sort();
    out.sigs.dedup();
    out
}

fn depth_for(tier: Tier, subject: &str) -> usize {
    match (tier, subject) {
        (Tier::Quick, "fc" | "gen" | "res") => 6,
        (Tier::Thorough, "fc" | "gen" | "res") => 8,
        (Tier::Quick, _) => 4,
        (Tier::Thorough, _) => 6,
    }
}

fn search_comp<T: Comp>(init: usize, depth: usize) -> SearchOut {
    match comp_inits::<T>().into_iter().nth(init).unwrap() {
        Err(_) => SearchOut { states: 0, transitions: 0, max_depth: 0, checks: 1, fails: if init == 4 { vec![] } else { vec![(format!("consistent-file-rejected@{}::from_json", T::name()), "load failed".into(), vec![])] }, sigs: vec![format!("{}:load-rejected", T::name())], load_rejected: true },
        Ok(root) => {
            let mut o = bfs(root.clone(), 10, depth, &|x: &mut T, a| comp_apply(x, a), &|b: &T, a: &T, act, r, c| comp_check(b, a, act, r, c), T::name());
            if init == 4 {
                // a file with redundant and inconsistent mass data was accepted: the getters must at least report it
                o.checks += 1;
                if root.mass().is_ok() {
                    o.fails.push((format!("inconsistent-file-accepted@{}::from_json", T::name()), "mass and specific value disagree but the object loads and reports a mass".into(), vec![]));
                }
            }
            o
        }
    }
}

fn search_loco(kind: &str, init: usize, depth: usize) -> SearchOut {
    let inits = loco_inits(kind);
    match inits.into_iter().nth(init) {
        None => SearchOut { states: 0, transitions: 0, max_depth: 0, checks: 0, fails: vec![], sigs: vec![], load_rejected: true },
        Some(Err(_)) => SearchOut { states: 0, transitions: 0, max_depth: 0, checks: 1, fails: vec![], sigs: vec![format!("{kind}:load-rejected:{init}")], load_rejected: true },
        Some(Ok(root)) => {
            let k = kind.to_string();
            bfs(root, N_LOCO_ACTIONS, depth, &|x: &mut Locomotive, a| loco_apply(x, a), &move |b: &Locomotive, a: &Locomotive, act, r, c| loco_check(&k, b, a, act, r, c), kind)
        }
    }
}

/// roll-ups: consist mass / force_max = sums; train static mass = cars (or override) + consist
fn rollup(init: usize, checks: &mut u64) -> Fails {
    let mut f: Fails = vec![];
    let comps: Vec<Vec<u8>> = vec![vec![0], vec![1], vec![0, 1], vec![1, 0, 0], vec![0, 0, 1, 1]];
    let units = &comps[init % comps.len()];
    let locos: Vec<Locomotive> = units
        .iter()
        .enumerate()
        .map(|(k, u)| {
            let mut l = if *u == 0 { Locomotive::default() } else { Locomotive::default_battery_electric_loco() };
            // give the units different masses / forces through the public setters
            let _ = l.set_force_max((400_000.0 + 50_000.0 * k as f64) * uc::N, ForceMaxSideEffect::SetMuToNone);
            l
        })
        .collect();
    let want_mass: f64 = locos.iter().map(|l| l.mass().unwrap().unwrap().value).sum();
    let want_force: f64 = locos.iter().map(|l| l.force_max().unwrap().value).sum();
    let con = Consist::new(locos, None, crate::domain::pt::pdct(true));
    *checks += 2;
    match con.mass() {
        Ok(Some(m)) => {
            if !close_tol(m.value, want_mass, 1e-12, 1e-9) {
                f.push(("consist-mass-not-sum-of-units@Consist::mass".into(), format!("{} vs {}", m.value, want_mass)));
            }
        }
        other => f.push(("consist-mass-unavailable@Consist::mass".into(), format!("{:?}", other.map(|x| x.map(|y| y.value)).map_err(|e| e.to_string())))),
    }
    match con.force_max() {
        Ok(fm) => {
            if !close_tol(fm.value, want_force, 1e-12, 1e-6) {
                f.push(("consist-force-max-not-sum-of-units@Consist::force_max".into(), format!("{} vs {}", fm.value, want_force)));
            }
        }
        Err(e) => f.push(("consist-force-max-unavailable@Consist::force_max".into(), format!("{e:#}"))),
    }
    // a consist in which some units' masses are unknown (reachable through accepted updates with the documented option
    // SetMassToNone) has no known mass: every subset of unknown units -- the reported mass must never be a number (the
    // sum over the units that happen to be known is not the consist's mass)
    let n_units = con.loco_vec.len();
    if n_units >= 2 {
        for mask in 1u32..(1u32 << n_units) {
            let mut c2 = con.clone();
            let mut ok = true;
            for k in 0..n_units {
                if mask & (1 << k) != 0 {
                    ok &= c2.loco_vec[k].set_mu(0.3 * uc::R, MuSideEffect::SetMassToNone).is_ok() && matches!(c2.loco_vec[k].mass(), Ok(None));
                }
            }
            if !ok {
                continue;
            }
            *checks += 1;
            if let Ok(Some(m)) = c2.mass() {
                f.push(("consist-reports-a-mass-although-a-unit-mass-is-unknown@Consist::mass".into(), format!("units with unknown mass: mask {mask:b} of {n_units}; Consist::mass() = {} kg (sum over all units when known: {want_mass})", m.value)));
            }
        }
    }
    // train level: all car mixes with and without override
    for (nl, ne) in [(3u32, 0u32), (0, 4), (5, 7)] {
        for (mo, lo) in [(None, None), (Some(1.234e6), None), (None, Some(333.0)), (Some(2.0e6), Some(500.0))] {
            let spec = TrainSpec { n_loaded: nl, n_empty: ne, davis: false, mass_override: mo, length_override: lo, consist: 0, cd_vec: false };
            let mut b = builder(&spec, None, Some(InitTrainState::new(Some(0.0 * uc::S), None, None)), None);
            b.loco_con = con.clone();
            let net = build_topology(&line_topology(&[5000.0], 20.0), false, SetStyle::Single);
            let tr = train_ref(&spec);
            *checks += 2;
            match b.make_set_speed_train_sim(&net, &[lidx(1)], SpeedTrace::new(vec![0.0, 1.0], vec![0.0, 0.5], None), None) {
                Err(e) => f.push(("train-build-failed@TrainSimBuilder".into(), format!("{e:#}"))),
                Ok(mut sim) => {
                    let want = tr.towed_mass + want_mass;
                    if !close_tol(sim.state.mass_static.value, want, 1e-12, 1e-6) {
                        f.push(("train-static-mass-not-cars-plus-consist@TrainSimBuilder::make_train_sim_parts".into(), format!("mass_static {} expected cars/override {} + consist {} = {}", sim.state.mass_static.value, tr.towed_mass, want_mass, want)));
                    }
                    if !close_tol(sim.state.length.value, tr.length, 1e-12, 1e-9) {
                        f.push(("train-length@TrainSimBuilder".into(), format!("{} vs {}", sim.state.length.value, tr.length)));
                    }
                    if sim.step().is_ok() {
                        *checks += 1;
                        if !close_tol(sim.state.weight_static.value, G * want, 1e-12, 1e-3) {
                            f.push(("train-weight-not-g-times-static-mass@update_res".into(), format!("{} vs {}", sim.state.weight_static.value, G * want)));
                        }
                    }
                }
            }
        }
    }
    f.sort_by(|a, b| a.0.cmp(&b.0));
    f.dedup_by(|a, b| a.0 == b.0);
    f
}

pub struct C20;
impl Prop for C20 {
    fn id(&self) -> &'static str {
        "C20"
    }
    fn rule(&self, tier: Tier) -> String {
        format!("explicit-state search (BFS, deduplicated on the serialized object) over setter sequences: FuelConverter / Generator / ReversibleEnergyStorage with alphabet {{set_mass(None|100 t|200 t, None|Extensive|Intensive), expunge_mass_fields}} to depth {} from 5 initial files (every known/unknown combination of mass and specific value + a redundant inconsistent file); Locomotive conv / BEL / hybrid / dummy with alphabet {{set_mass(None|M1|M2), set_mass(M1, Extensive), set_mu(0.3|0.25) x {{Mass, ForceMax, SetMassToNone}}, set_force_max(500 kN | mu1*M1*g) x {{Mass, UpdateMu, SetMuToNone, SetMassToNone, SetMassAndMuToNone}}}} (20 letters) to depth {} from 8 initial files (mass / mu / force / baseline+ballast+component masses known or not, consistent or not); Consist and TrainSimBuilder roll-ups over 5 compositions x 3 car mixes x 4 override combinations. Oracle after every transition. distinct_nontrivial = distinct (subject, action, accepted/rejected) signatures.", depth_for(tier, "fc"), depth_for(tier, "conv"))
    }
    fn assumptions(&self) -> Vec<String> {
        vec![
            "documented side effects are taken from the doc comments of MassSideEffect / MuSideEffect / ForceMaxSideEffect".into(),
            "private fields (mass, mu, force_max, specific values) are read from the serialized object".into(),
            "'rejection means no effect': after an Err the serialized object must be byte-identical to before".into(),
        ]
    }
    fn explore(&self, ctx: &mut Ctx) {
        let subjects: Vec<(&str, usize)> = vec![("fc", 5), ("gen", 5), ("res", 5), ("conv", 8), ("bel", 8), ("hyb", 8), ("dummy", 8), ("rollup", 5)];
        for (s, n) in subjects {
            for init in 0..n {
                if !ctx.claim() {
                    continue;
                }
                let d = depth_for(ctx.tier, s);
                let case0 = Case { subject: s.to_string(), init, actions: vec![] };
                ctx.sample(|| serde_json::to_value(&case0).unwrap());
                if s == "rollup" {
                    let mut c = 0;
                    let f = rollup(init, &mut c);
                    ctx.checks(c);
                    ctx.state();
                    ctx.transition();
                    ctx.sig(&format!("rollup:{init}"));
                    for (k, w) in f {
                        ctx.violation(&k, w, serde_json::to_value(&case0).unwrap(), 0);
                    }
                    continue;
                }
                let o = match s {
                    "fc" => search_comp::<FuelConverter>(init, d),
                    "gen" => search_comp::<Generator>(init, d),
                    "res" => search_comp::<ReversibleEnergyStorage>(init, d),
                    k => search_loco(k, init, d),
                };
                ctx.stats.states += o.states;
                ctx.stats.transitions += o.transitions;
                ctx.depth(o.max_depth);
                ctx.checks(o.checks);
                for sg in &o.sigs {
                    ctx.sig(sg);
                }
                for (k, w, path) in o.fails {
                    let c = Case { subject: s.to_string(), init, actions: path.clone() };
                    ctx.violation(&k, w, serde_json::to_value(&c).unwrap(), path.len() as u64);
                }
            }
        }
        ctx.finish();
    }
    fn replay(&self, case: &Value) -> ReplayOutcome {
        let c: Case = match serde_json::from_value(case.clone()) {
            Ok(c) => c,
            Err(e) => return ReplayOutcome { violations: vec![("bad-replay-file".into(), e.to_string())], observation: String::new() },
        };
        let mut v: Fails = vec![];
        let mut checks = 0;
        let mut obs = String::new();
        macro_rules! comp {
            ($t:ty) => {{
                match comp_inits::<$t>().into_iter().nth(c.init) {
                    Some(Ok(mut x)) => {
                        if c.actions.is_empty() && c.init == 4 && x.mass().is_ok() {
                            v.push((format!("inconsistent-file-accepted@{}::from_json", <$t>::name()), "accepted".into()));
                        }
                        for &a in &c.actions {
                            let b = x.clone();
                            let r = comp_apply(&mut x, a);
                            v.extend(comp_check(&b, &x, a, &r, &mut checks));
                            obs.push_str(&format!("a{a}:{} ", if r.is_ok() { "ok" } else { "err" }));
                        }
                    }
                    _ => {
                        if c.init != 4 {
                            v.push((format!("consistent-file-rejected@{}::from_json", <$t>::name()), "load failed".into()));
                        }
                    }
                }
            }};
        }
        match c.subject.as_str() {
            "fc" => comp!(FuelConverter),
            "gen" => comp!(Generator),
            "res" => comp!(ReversibleEnergyStorage),
            "rollup" => v.extend(rollup(c.init, &mut checks)),
            k => {
                if let Some(Ok(mut x)) = loco_inits(k).into_iter().nth(c.init) {
                    for &a in &c.actions {
                        let b = x.clone();
                        let r = loco_apply(&mut x, a);
                        v.extend(loco_check(k, &b, &x, a, &r, &mut checks));
                        obs.push_str(&format!("{}:{} ", loco_action_name(a), if r.is_ok() { "ok" } else { "err" }));
                    }
                    obs.push_str(&format!("=> {:?}", loco_report(&x)));
                }
            }
        }
        // only the failures of the LAST action (and load) identify this case; earlier ones belong to shorter cases
        v.sort_by(|a, b| a.0.cmp(&b.0));
        v.dedup_by(|a, b| a.0 == b.0);
        ReplayOutcome { violations: v, observation: obs }
    }
}
