//! SetSpeedLab: E-SEQ on real `SetSpeedTrainSim` objects (built by `TrainSimBuilder::make_set_speed_train_sim`),
//! one appended trace point + one real `step()` per transition.  Oracles for C07, C11, C12, C14.

use crate::domain::net::*;
use crate::domain::train::*;
use crate::engine::seq::dfs;
use crate::engine::{close_tol, guarded, Ctx, ReplayOutcome, Tier};
use crate::props::c06::networks;
use crate::refmodel::geometry::RouteRef;
use altrios_core::track::Network;
use altrios_core::train::{InitTrainState, SetSpeedTrainSim, SpeedTrace};
use altrios_core::traits::Mass;
use altrios_core::uc;
use serde::{Deserialize, Serialize};
use serde_json::Value;

pub const ACCELS: [f64; 3] = [0.0, -0.3, 0.2];
pub const DTS: [f64; 3] = [1.0, 0.5, 2.5];
pub const G: f64 = 9.801_548_494_963_14;
pub const RHO: f64 = 1.225;

#[derive(Debug, Clone, Serialize, Deserialize, PartialEq)]
pub struct SsCase {
    pub net: usize,
    pub route: Vec<usize>,
    pub train: TrainSpec,
    pub v0: f64,
    /// initial TrainState speed when it differs from the first trace sample (rolling-start trace on a train
    /// initialised at rest); None: equal to v0
    #[serde(default)]
    pub init_speed: Option<f64>,
    /// explicit initial front offset = train length + this many metres (a run that starts part-way along its route);
    /// None: the default start (front one train length into the path)
    #[serde(default)]
    pub init_extra: Option<f64>,
    /// true: the simulation is assembled by hand from the parts returned by the secondary builder entry point
    /// `make_set_speed_train_sim_and_parts`: the path-resistance caches (`path_res::Strap::new`) are constructed against
    /// the ALREADY POPULATED path at the train's initial position (the builder constructs them against the empty path)
    #[serde(default)]
    pub hand_built: bool,
    /// letters: accel index * 3 + dt index; 100 + k = "negative speed" probe (C14)
    pub path: Vec<usize>,
}

pub fn build_sim(nets: &[(String, Network)], c: &SsCase) -> Result<SetSpeedTrainSim, String> {
    let off = c.init_extra.map(|x| (train_ref(&c.train).length + x) * uc::M);
    let b = builder(&c.train, None, Some(InitTrainState::new(Some(0.0 * uc::S), off, Some(c.init_speed.unwrap_or(c.v0) * uc::MPS))), Some(1));
    let route: Vec<_> = c.route.iter().map(|&i| lidx(i)).collect();
    let trace = SpeedTrace::new(vec![0.0], vec![c.v0], None);
    if c.hand_built {
        use altrios_core::train::kind::path_res;
        let (sim0, _tp, path, res0, _fb) = b.make_set_speed_train_sim_and_parts(&nets[c.net].1, &route, trace, Some(1)).map_err(|e| format!("{e:#}"))?;
        let grade = path_res::Strap::new(path.grades(), &sim0.state).map_err(|e| format!("{e:#}"))?;
        let curve = path_res::Strap::new(path.curves(), &sim0.state).map_err(|e| format!("{e:#}"))?;
        // the resistance model's fields are private: exchange the two path caches through the serialized form
        let mut v = serde_json::to_value(&res0).map_err(|e| e.to_string())?;
        v["Strap"]["grade"] = serde_json::to_value(&grade).map_err(|e| e.to_string())?;
        v["Strap"]["curve"] = serde_json::to_value(&curve).map_err(|e| e.to_string())?;
        let res: altrios_core::train::TrainRes = serde_json::from_value(v).map_err(|e| e.to_string())?;
        return Ok(SetSpeedTrainSim::new(sim0.loco_con.clone(), sim0.state.clone(), sim0.speed_trace.clone(), res, path, Some(1)));
    }
    b.make_set_speed_train_sim(&nets[c.net].1, &route, trace, Some(1)).map_err(|e| format!("{e:#}"))
}

pub struct StepOut {
    pub accepted: bool,
    pub panicked: bool,
    pub err: String,
    pub dt: f64,
    pub v_new: f64,
    pub skipped: bool,
}

/// append one trace point and run the real step
pub fn apply(sim: &mut SetSpeedTrainSim, letter: usize) -> StepOut {
    let t = sim.speed_trace.time.last().unwrap().value;
    let v = sim.speed_trace.speed.last().unwrap().value;
    let (dt, v_new) = if letter >= 100 {
        (1.0, -0.5)
    } else {
        let a = ACCELS[letter / 3];
        let dt = DTS[letter % 3];
        // braking below zero from a moving train = "brake to a stand" (speed exactly 0 at the end of the step); a
        // following hold letter is then a dwell step (0 -> 0) right after a step with non-zero wheel power
        let v_new = v + a * dt;
        (dt, if v > 0.0 && v_new < 0.0 { 0.0 } else { v_new })
    };
    let mut out = StepOut { accepted: false, panicked: false, err: String::new(), dt, v_new, skipped: false };
    if letter < 100 && (v_new < 0.0 || v_new > 22.0) {
        out.skipped = true;
        return out;
    }
    sim.speed_trace.time.push((t + dt) * uc::S);
    sim.speed_trace.speed.push(v_new * uc::MPS);
    match guarded(|| sim.step()) {
        Ok(Ok(())) => out.accepted = true,
        Ok(Err(e)) => out.err = format!("{e:#}"),
        Err(p) => {
            out.panicked = true;
            out.err = p;
        }
    }
    out
}

pub type Fails = Vec<(String, String)>;

pub struct Refs {
    pub route: RouteRef,
    pub train: TrainRef,
    pub consist_mass: f64,
}

pub fn refs(nets: &[(String, Network)], c: &SsCase) -> Refs {
    let tp = train_config(&c.train).make_train_params().unwrap();
    let con = consist(c.train.consist, Some(1));
    Refs { route: RouteRef::new(&nets[c.net].1 .0, &c.route, &tp), train: train_ref(&c.train), consist_mass: con.mass().unwrap().map(|m| m.value).unwrap_or(0.0) }
}

fn approx(a: f64, b: f64, abs: f64) -> bool {
    close_tol(a, b, 1e-9, abs)
}

/// C07: forces saved at step k belong to position/speed of step k-1 (= parent state)
pub fn oracle_c07(r: &Refs, p: &SetSpeedTrainSim, s: &SetSpeedTrainSim, checks: &mut u64) -> Fails {
    state_c07(r, p.state.offset.value, p.state.speed.value, &s.state, checks, "set-speed")
}

pub fn state_c07(r: &Refs, front: f64, v: f64, st: &altrios_core::train::TrainState, checks: &mut u64, kind: &str) -> Fails {
    let mut f: Fails = vec![];
    let len = r.train.length;
    let rear = front - len;
    let mass = r.train.towed_mass + r.consist_mass;
    let w = G * mass;
    let band = 1e-9 * w;
    let mut t = |ok: bool, key: &str, what: String| {
        *checks += 1;
        if !ok {
            f.push((format!("{key}:{kind}"), format!("{what} (front={front}, rear={rear}, speed={v})")));
        }
    };
    t(approx(st.mass_static.value, mass, 1e-6), "static-mass-not-cars-plus-consist@TrainSimBuilder", format!("mass_static {} expected {}", st.mass_static.value, mass));
    t(approx(st.weight_static.value, w, band), "weight-not-g-times-static-mass@update_res", format!("{} vs {}", st.weight_static.value, w));
    t(approx(st.length.value, len, 1e-9), "length@TrainSimBuilder", format!("{} vs {}", st.length.value, len));
    let grade = w * (r.route.e_at(front) - r.route.e_at(rear)) / len;
    t(approx(st.res_grade.value, grade, band * 10.0), "grade-resistance-differs@path_res::Strap::calc_res", format!("res_grade {} expected weight*(e(front)-e(rear))/length = {}", st.res_grade.value, grade));
    let curve = w * (r.route.c_at(front) - r.route.c_at(rear)) / len;
    t(approx(st.res_curve.value, curve, band * 10.0), "curve-resistance-differs@path_res::Strap::calc_res", format!("res_curve {} expected {}", st.res_curve.value, curve));
    t(approx(st.res_rolling.value, r.train.rolling_ratio * w, band), "rolling-resistance-differs@rolling::Basic", format!("{} vs {}", st.res_rolling.value, r.train.rolling_ratio * w));
    t(approx(st.res_davis_b.value, r.train.davis_b * v * w, band), "davis-b-resistance-differs@davis_b::Basic", format!("{} vs {}", st.res_davis_b.value, r.train.davis_b * v * w));
    t(approx(st.res_bearing.value, r.train.bearing, 1e-9), "bearing-resistance-differs@bearing::Basic", format!("{} vs {}", st.res_bearing.value, r.train.bearing));
    t(approx(st.res_aero.value, r.train.cd_area * RHO * v * v, 1e-9), "aero-drag-differs@aerodynamic::Basic", format!("{} vs {}", st.res_aero.value, r.train.cd_area * RHO * v * v));
    t(approx(st.elev_front.value, r.route.e_at(front), 1e-7), "front-elevation-differs@Strap::update_res", format!("{} vs {}", st.elev_front.value, r.route.e_at(front)));
    let (gl, gr) = r.route.slopes(front);
    t(approx(st.grade_front.value, gl, 1e-12) || approx(st.grade_front.value, gr, 1e-12), "front-grade-differs@Strap::update_res", format!("grade_front {} but track slope at the front is {} / {}", st.grade_front.value, gl, gr));
    let (bl, br) = r.route.slopes(rear);
    t(approx(st.grade_back.value, bl, 1e-12) || approx(st.grade_back.value, br, 1e-12), "rear-grade-differs@Strap::update_res", format!("grade_back {} but track slope at the rear is {} / {}", st.grade_back.value, bl, br));
    f
}

pub fn oracle_c12(r: &Refs, p: &SetSpeedTrainSim, s: &SetSpeedTrainSim, so: &StepOut, checks: &mut u64) -> Fails {
    state_c12(r, &p.state, &s.state, so.dt, checks, "set-speed")
}

pub fn state_c12(r: &Refs, p: &altrios_core::train::TrainState, s: &altrios_core::train::TrainState, dt: f64, checks: &mut u64, kind: &str) -> Fails {
    let mut f: Fails = vec![];
    let mut t = |ok: bool, key: &str, what: String| {
        *checks += 1;
        if !ok {
            f.push((format!("{key}:{kind}"), what));
        }
    };
    t(close_tol(s.time.value - p.time.value, dt, 1e-12, 1e-9), "time-does-not-advance-by-dt@solve_step", format!("time {} -> {} with dt {}", p.time.value, s.time.value, dt));
    t(s.dt.value == dt, "state-dt-differs-from-step-size@solve_step", format!("state.dt {} step {}", s.dt.value, dt));
    let want = dt * 0.5 * (p.speed.value + s.speed.value);
    t(close_tol(s.offset.value - p.offset.value, want, 1e-7, 1e-9), "offset-not-advanced-by-mean-speed@solve_step", format!("offset {} -> {} but dt*(v0+v1)/2 = {}", p.offset.value, s.offset.value, want));
    t(close_tol(s.offset_back.value, s.offset.value - s.length.value, 1e-12, 1e-9), "rear-position-not-front-minus-length@update_res", format!("offset_back {} but offset - length = {}", s.offset_back.value, s.offset.value - s.length.value));
    t(close_tol(s.total_dist.value - p.total_dist.value, (s.offset.value - p.offset.value).abs(), 1e-9, 1e-9), "total-distance-not-sum-of-moves@solve_step", format!("total_dist {} -> {} for a move of {}", p.total_dist.value, s.total_dist.value, s.offset.value - p.offset.value));
    // "identify that front position ON THE ROUTE": a set-speed trace may drive the front past the end of the path (the
    // next step then fails in the resistance lookup); there is no segment to identify there
    if s.offset.value > r.route.total() {
        return f;
    }
    let cands = r.route.link_at(s.offset.value);
    let ok = cands.iter().any(|(li, off)| *li as u32 == s.link_idx_front && close_tol(*off, s.offset_in_link.value, 1e-12, 1e-9));
    t(ok, "front-segment-or-in-segment-offset-wrong@set_link_and_offset", format!("link_idx_front {} offset_in_link {} but position {} is {:?}", s.link_idx_front, s.offset_in_link.value, s.offset.value, cands));
    f
}

pub fn oracle_c14(p: &SetSpeedTrainSim, s: &SetSpeedTrainSim, so: &StepOut, checks: &mut u64) -> Fails {
    let mut f: Fails = vec![];
    let mut t = |ok: bool, key: &str, what: String| {
        *checks += 1;
        if !ok {
            f.push((format!("{key}:set-speed"), what));
        }
    };
    let i = p.state.i;
    t(s.state.time == s.speed_trace.time[i], "time-differs-from-trace@solve_step", format!("{} vs {}", s.state.time.value, s.speed_trace.time[i].value));
    t(s.state.speed == s.speed_trace.speed[i], "speed-differs-from-trace@solve_step", format!("{} vs {}", s.state.speed.value, s.speed_trace.speed[i].value));
    let dt = so.dt;
    // the kinetic-energy change is the one between the two TRACE samples
    let (v0, v1) = (s.speed_trace.speed[i - 1].value, so.v_new);
    let m = s.state.mass_static.value + s.state.mass_rot.value;
    let res_net = s.state.res_rolling.value + s.state.res_bearing.value + s.state.res_davis_b.value + s.state.res_aero.value + s.state.res_grade.value + s.state.res_curve.value;
    let raw = m / (2.0 * dt) * (v1 * v1 - v0 * v0) + res_net * 0.5 * (v0 + v1);
    let con = &s.loco_con.state;
    // "its dynamic-braking capability": what the units' electric drivetrains can absorb, derived from the locomotives
    // (a consist with a dummy unit publishes an effectively unlimited capability and is not judged here)
    let cap: Option<f64> = s.loco_con.loco_vec.iter().map(|l| l.electric_drivetrain().map(|e| e.pwr_out_max.value)).sum();
    if let Some(cap) = cap {
        t(close_tol(con.pwr_dyn_brake_max.value, cap, 1e-12, 1e-6), "published-dynamic-braking-capability-not-sum-of-drivetrain-ratings@Consist::set_pwr_dyn_brake_max", format!("published {} W, sum of the units' drivetrain ratings {} W", con.pwr_dyn_brake_max.value, cap));
    }
    let lo = -con.pwr_dyn_brake_max.value.max(0.0);
    // upper clip: published traction limit, and the published rate over the step (the code integrates the rate over
    // the previous step's dt; both readings are accepted, see DESIGN C14 watch item)
    let hi_a = con.pwr_out_max.value.min((p.state.pwr_whl_out.value + con.pwr_rate_out_max.value * dt).max(0.0));
    let hi_b = con.pwr_out_max.value.min((p.state.pwr_whl_out.value + con.pwr_rate_out_max.value * p.state.dt.value).max(0.0));
    let want_a = raw.max(lo).min(hi_a);
    let want_b = raw.max(lo).min(hi_b);
    let sc = 1e-9 * con.pwr_dyn_brake_max.value.max(1.0);
    t(close_tol(s.state.pwr_whl_out.value, want_a, 1e-9, sc) || close_tol(s.state.pwr_whl_out.value, want_b, 1e-9, sc), "wheel-power-not-inertia-plus-resistance@solve_required_pwr", format!("pwr_whl_out {} but clip(m/(2dt)(v1^2-v0^2) + res_net*vbar = {raw}, {lo}, {hi_a}|{hi_b}) = {want_a}|{want_b} (m={m}, res_net={res_net})", s.state.pwr_whl_out.value));
    t(close_tol(s.state.pwr_accel.value, m / (2.0 * dt) * (v1 * v1 - v0 * v0), 1e-9, sc), "inertia-power-not-compound-mass@solve_required_pwr", format!("pwr_accel {} expected {}", s.state.pwr_accel.value, m / (2.0 * dt) * (v1 * v1 - v0 * v0)));
    let de = s.state.energy_whl_out.value - p.state.energy_whl_out.value;
    t(close_tol(de, s.state.pwr_whl_out.value * dt, 1e-9, sc), "wheel-energy-not-power-times-trace-dt@solve_required_pwr", format!("energy step {} but pwr*dt = {}", de, s.state.pwr_whl_out.value * dt));
    let dpos = s.state.energy_whl_out_pos.value - p.state.energy_whl_out_pos.value;
    let dneg = s.state.energy_whl_out_neg.value - p.state.energy_whl_out_neg.value;
    t(close_tol(dpos - dneg, de, 1e-9, sc), "pos-neg-wheel-energy-split@solve_required_pwr", format!("pos {} neg {} total {}", dpos, dneg, de));
    f
}

pub fn oracle_c11_setspeed(s: &SetSpeedTrainSim, checks: &mut u64) -> Fails {
    c11_common(&s.state, &s.loco_con, checks, "set-speed")
}

pub fn c11_common(st: &altrios_core::train::TrainState, con: &altrios_core::consist::Consist, checks: &mut u64, kind: &str) -> Fails {
    let mut f: Fails = vec![];
    let mut t = |ok: bool, key: &str, what: String| {
        *checks += 1;
        if !ok {
            f.push((format!("{key}:{kind}"), what));
        }
    };
    let sc = 1e-9 * con.state.pwr_dyn_brake_max.value.max(1.0);
    t(con.state.pwr_out_req == st.pwr_whl_out, "consist-request-differs-from-train-demand@solve_step", format!("consist pwr_out_req {} train pwr_whl_out {}", con.state.pwr_out_req.value, st.pwr_whl_out.value));
    t(altrios_core::utils::almost_eq(con.state.pwr_out.value, st.pwr_whl_out.value, None) || (con.state.pwr_out.value - st.pwr_whl_out.value).abs() <= sc, "consist-delivery-differs-from-train-demand@Consist::solve_energy_consumption", format!("consist pwr_out {} train pwr_whl_out {}", con.state.pwr_out.value, st.pwr_whl_out.value));
    let esc = st.energy_whl_out_pos.value + st.energy_whl_out_neg.value + 1.0;
    let ce = |a: f64, b: f64| close_tol(a, b, 1e-8, 1e-8 * esc);
    t(ce(st.energy_whl_out.value, con.state.energy_out.value), "wheel-energy-train-vs-consist@energy_out", format!("{} vs {}", st.energy_whl_out.value, con.state.energy_out.value));
    t(ce(st.energy_whl_out_pos.value, con.state.energy_out_pos.value), "wheel-energy-pos-train-vs-consist@energy_out_pos", format!("{} vs {}", st.energy_whl_out_pos.value, con.state.energy_out_pos.value));
    t(ce(st.energy_whl_out_neg.value, con.state.energy_out_neg.value), "wheel-energy-neg-train-vs-consist@energy_out_neg", format!("{} vs {}", st.energy_whl_out_neg.value, con.state.energy_out_neg.value));
    let sum_out: f64 = con.loco_vec.iter().map(|l| l.state.energy_out.value).sum();
    t(ce(con.state.energy_out.value, sum_out), "wheel-energy-consist-vs-locomotives@energy_out", format!("{} vs {}", con.state.energy_out.value, sum_out));
    let fuel: f64 = con.loco_vec.iter().filter_map(|l| l.fuel_converter().map(|fc| fc.state.energy_fuel.value)).sum();
    let res: f64 = con.loco_vec.iter().filter_map(|l| l.reversible_energy_storage().map(|r| r.state.energy_out_chemical.value)).sum();
    let fsc = fuel.abs() + res.abs() + 1.0;
    t(close_tol(con.state.energy_fuel.value, fuel, 1e-8, 1e-8 * fsc), "fuel-energy-consist-vs-locomotives@energy_fuel", format!("{} vs {}", con.state.energy_fuel.value, fuel));
    t(close_tol(con.state.energy_res.value, res, 1e-8, 1e-8 * fsc), "battery-energy-consist-vs-locomotives@energy_res", format!("{} vs {}", con.state.energy_res.value, res));
    t(close_tol(con.get_energy_fuel().value, fuel, 1e-8, 1e-8 * fsc), "fuel-getter@Consist::get_energy_fuel", format!("{} vs {}", con.get_energy_fuel().value, fuel));
    t(close_tol(con.get_net_energy_res().value, res, 1e-8, 1e-8 * fsc), "battery-getter@Consist::get_net_energy_res", format!("{} vs {}", con.get_net_energy_res().value, res));
    f
}

fn oracle(which: &str, r: &Refs, p: &SetSpeedTrainSim, s: &SetSpeedTrainSim, so: &StepOut, checks: &mut u64) -> Fails {
    match which {
        "C07" => oracle_c07(r, p, s, checks),
        "C11" => oracle_c11_setspeed(s, checks),
        "C12" => oracle_c12(r, p, s, so, checks),
        _ => oracle_c14(p, s, so, checks),
    }
}

/// (network index, route, train) combinations
pub fn combos(nets: &[(String, Network)], tier: Tier) -> Vec<(usize, Vec<usize>, TrainSpec)> {
    let t3 = TrainSpec { n_loaded: 2, n_empty: 1, davis: true, mass_override: None, length_override: None, consist: 0, cd_vec: false };
    let t20 = TrainSpec { n_loaded: 20, n_empty: 0, davis: false, mass_override: None, length_override: None, consist: 2, cd_vec: false };
    let t60 = TrainSpec { n_loaded: 30, n_empty: 30, davis: true, mass_override: None, length_override: None, consist: 3, cd_vec: false };
    let t20o = TrainSpec { n_loaded: 10, n_empty: 10, davis: true, mass_override: Some(1.5e6), length_override: Some(400.0), consist: 4, cd_vec: true };
    let t3b = TrainSpec { n_loaded: 0, n_empty: 3, davis: true, mass_override: None, length_override: None, consist: 1, cd_vec: true };
    // hybrid units (engine + battery on one drivetrain): their dynamic brake engages when braking exceeds what the battery absorbs
    let t20h = TrainSpec { n_loaded: 20, n_empty: 0, davis: false, mass_override: None, length_override: None, consist: 5, cd_vec: false };
    let t60h = TrainSpec { n_loaded: 30, n_empty: 30, davis: true, mass_override: None, length_override: None, consist: 6, cd_vec: false };
    let t20r = TrainSpec { n_loaded: 20, n_empty: 0, davis: false, mass_override: None, length_override: None, consist: 7, cd_vec: false };
    let idx = |name: &str| nets.iter().position(|n| n.0 == name).unwrap();
    let mut v = vec![
        (idx("line4-a"), vec![1, 2, 3, 4], t3),
        (idx("line4-b"), vec![1, 2, 3, 4], t20r),
        (idx("line4-a"), vec![1, 2, 3, 4], t20h),
        (idx("line4-a"), vec![1, 2, 3, 4], t60),
        (idx("line4-b"), vec![8, 7, 6, 5], t3b),
        (idx("line4-b"), vec![1, 2, 3, 4], t20),
        (idx("line3-c"), vec![1, 2, 3], t20o),
        (idx("siding"), vec![1, 3, 4], t3),
    ];
    if tier.is_thorough() {
        v.extend(vec![
            (idx("line4-a"), vec![8, 7, 6, 5], t20),
            (idx("line4-a"), vec![1, 2, 3, 4], t20o),
            (idx("line4-b"), vec![1, 2, 3, 4], t3),
            (idx("line4-b"), vec![8, 7, 6, 5], t60),
            (idx("line3-c"), vec![6, 5, 4], t3b),
            (idx("line3-c"), vec![1, 2, 3], t60),
            (idx("siding"), vec![1, 2, 4], t20),
            (idx("siding"), vec![8, 7, 5], t3),
            (idx("y-merge"), vec![2, 3], t3),
            (idx("y-merge"), vec![1, 3], t20o),
            (idx("line4-b"), vec![8, 7, 6, 5], t60h),
            (idx("siding"), vec![1, 3, 4], t20h),
        ]);
    }
    v
}

pub fn bounds(tier: Tier) -> (usize, usize, usize) {
    // FULL depth, DEV(L,1), DEV(L,2)
    match tier {
        Tier::Quick => (3, 60, 14),
        Tier::Thorough => (5, 120, 30),
    }
}

pub fn rule(which: &str, tier: Tier) -> String {
    let (d, l1, l2) = bounds(tier);
    format!(
        "E-SEQ on real SetSpeedTrainSim objects built by TrainSimBuilder::make_set_speed_train_sim: {} (route, train) combinations over the catalogue networks (links of 5/150/1000/4000 m, every elevation/heading pattern; trains of 54 m, 360 m, 400 m (overridden), 1080 m; consists 1 conv / 1 BEL / conv+BEL / shipped 5-unit / 3 mixed); alphabet = accel in {:?} m/s^2 x dt in {:?} s (one appended SpeedTrace point + one real step() per letter; start speeds 0 and 12 m/s, plus (C14/C11) a rolling-start trace at 12 m/s on a train initialised at rest); FULL({}) + DEV({},1) + DEV({},2) (default letter: hold speed, dt 1 s). Oracle {} on every accepted step. distinct_nontrivial = distinct (combo, how many grade/curve breakpoints the front and the rear crossed in the step, front/rear on the same segment or not, traction/braking/clipped) signatures.",
        combos(&networks(), tier).len(),
        ACCELS,
        DTS,
        d,
        l1,
        l2,
        which
    )
}

fn crossing_sig(r: &Refs, p: &SetSpeedTrainSim, s: &SetSpeedTrainSim) -> String {
    let cnt = |a: f64, b: f64| r.route.eref.iter().filter(|e| e.0 > a && e.0 <= b).count().min(3);
    let (f0, f1) = (p.state.offset.value, s.state.offset.value);
    let len = s.state.length.value;
    let seg = |x: f64| r.route.eref.iter().filter(|e| e.0 <= x).count();
    let clip = if s.state.pwr_whl_out.value >= s.loco_con.state.pwr_out_max.value * (1.0 - 1e-9) {
        "clip-hi"
    } else if s.state.pwr_whl_out.value > 0.0 {
        "trac"
    } else if s.state.pwr_whl_out.value < 0.0 {
        "brake"
    } else {
        "zero"
    };
    format!("f{}r{}:{}:{}", cnt(f0, f1), cnt(f0 - len, f1 - len), if seg(f1) == seg(f1 - len) { "same" } else { "diff" }, clip)
}

pub fn explore(ctx: &mut Ctx, which: &'static str) {
    let nets = networks();
    let (full_d, dev1, dev2) = bounds(ctx.tier);
    let n_letters = 9usize;
    for (ci, (net, route, train)) in combos(&nets, ctx.tier).into_iter().enumerate() {
        for (v0, init_speed, init_extra, hand_built) in [(12.0, None, None, false), (0.0, None, None, false), (12.0, Some(0.0), None, false), (12.0, None, Some(137.5f64), false), (12.0, None, Some(137.5f64), true), (12.0, None, Some(1210.0f64), true)] {
            if init_speed.is_some() && which != "C14" && which != "C11" {
                continue;
            }
            // a start part-way along the route concerns the position bookkeeping (C12) and the geometry under the train (C07)
            if init_extra.is_some() && which != "C12" && which != "C07" {
                continue;
            }
            if let Some(x) = init_extra {
                // the start position must leave room for the run on this route
                let route_len: f64 = route.iter().map(|&i| nets[net].1 .0[i].length.value).sum();
                if x > 200.0 && train_ref(&train).length + x + 600.0 > route_len {
                    continue;
                }
            }
            for first in 0..n_letters {
                if !ctx.claim() {
                    continue;
                }
                let base = SsCase { net, route: route.clone(), train, v0, init_speed, init_extra, hand_built, path: vec![] };
                let root = match build_sim(&nets, &base) {
                    Ok(s) => s,
                    Err(e) => {
                        ctx.violation("valid-train-rejected@TrainSimBuilder::make_set_speed_train_sim", e, serde_json::to_value(&base).unwrap(), 0);
                        continue;
                    }
                };
                let r = refs(&nets, &base);
                ctx.state();
                if which == "C12" && first == 0 {
                    // the initial state (saved as step 0 by walk()) already obeys the bookkeeping
                    let st = &root.state;
                    ctx.checks(2);
                    if !close_tol(st.offset_back.value, st.offset.value - st.length.value, 1e-12, 1e-9) {
                        ctx.violation("initial-rear-position-not-front-minus-length@TrainState::new:set-speed", format!("offset_back {} but offset {} - length {}", st.offset_back.value, st.offset.value, st.length.value), serde_json::to_value(&base).unwrap(), 0);
                    }
                    if st.total_dist.value != 0.0 {
                        ctx.violation("initial-total-distance-not-zero@TrainState::new:set-speed", format!("total_dist {} before the first step", st.total_dist.value), serde_json::to_value(&base).unwrap(), 0);
                    }
                }
                if first == 0 {
                    ctx.sample(|| serde_json::to_value(&base).unwrap());
                }
                let mut nleaf = 0u64;
                let mut modes = vec![(full_d, None), (dev1, Some(1usize))];
                if v0 > 0.0 && init_speed.is_none() && !hand_built {
                    modes.push((dev2, Some(2usize)));
                }
                if init_speed.is_some() {
                    modes = vec![(full_d.min(3), None)];
                }
                for (mode_len, mode_dev) in modes {
                    let mut path: Vec<usize> = vec![first];
                    let mut step = |parent: &SetSpeedTrainSim, a: usize, path: &[usize]| -> Option<SetSpeedTrainSim> {
                        let mut sim = parent.clone();
                        let so = apply(&mut sim, a);
                        if so.skipped {
                            return None;
                        }
                        ctx.transition();
                        ctx.depth(path.len() as u64);
                        let mk = |path: &[usize]| SsCase { net, route: route.clone(), train, v0, init_speed, init_extra, hand_built, path: path.to_vec() };
                        if so.panicked {
                            ctx.violation(&format!("panic@SetSpeedTrainSim::step:{which}"), so.err.chars().take(300).collect(), serde_json::to_value(mk(path)).unwrap(), path.len() as u64);
                            return None;
                        }
                        if !so.accepted {
                            ctx.stats.rejected += 1;
                            ctx.sig(&format!("rejected:{}", so.err.lines().last().unwrap_or("").chars().take(50).collect::<String>()));
                            return None;
                        }
                        let mut checks = 0;
                        let fails = oracle(which, &r, parent, &sim, &so, &mut checks);
                        ctx.checks(checks);
                        ctx.state();
                        ctx.sig(&format!("c{ci}:{}", crossing_sig(&r, parent, &sim)));
                        for (k, w) in fails {
                            if ctx.wants_violation(&k, path.len() as u64) {
                                ctx.violation(&k, w, serde_json::to_value(mk(path)).unwrap(), path.len() as u64);
                            } else {
                                ctx.count_violation_only(&k);
                            }
                        }
                        nleaf += 1;
                        if nleaf % 199 == 0 {
                            // binding: the whole trace through the real walk() on a fresh object
                            match validate_walk(&nets, &mk(path), &sim) {
                                Ok(()) => ctx.validated(),
                                Err(e) => ctx.machinery_error(e),
                            }
                        }
                        Some(sim)
                    };
                    if let Some(child) = step(&root, first, &path.clone()) {
                        dfs(&child, mode_len, mode_dev, n_letters, &mut path, &mut step);
                    }
                }
                // C14: a negative speed at every position of a default run must be rejected at that step
                if which == "C14" && first == 0 && v0 > 0.0 {
                    let mut sim = root.clone();
                    for pos in 0..12usize {
                        let mut probe = sim.clone();
                        let so = apply(&mut probe, 100);
                        ctx.transition();
                        ctx.checks(1);
                        if so.accepted || so.panicked {
                            let mut p: Vec<usize> = vec![0; pos];
                            p.push(100);
                            ctx.violation("negative-speed-accepted@SetSpeedTrainSim::solve_step:set-speed", format!("a trace point with speed -0.5 m/s at position {} was {}", pos + 1, if so.panicked { "a panic" } else { "accepted" }), serde_json::to_value(SsCase { net, route: route.clone(), train, v0, init_speed, init_extra, hand_built, path: p }).unwrap(), pos as u64);
                        } else {
                            ctx.sig("negative-speed-rejected");
                        }
                        let so2 = apply(&mut sim, 0);
                        if !so2.accepted {
                            break;
                        }
                    }
                }
                if ctx.out_of_time() {
                    break;
                }
            }
        }
    }
}

/// straight-line: build, apply the letters
pub fn run_case(nets: &[(String, Network)], c: &SsCase) -> Result<Vec<(SetSpeedTrainSim, SetSpeedTrainSim, StepOut)>, String> {
    let mut sim = build_sim(nets, c)?;
    let mut out = vec![];
    for &a in &c.path {
        let p = sim.clone();
        let so = apply(&mut sim, a);
        let acc = so.accepted;
        out.push((p, sim.clone(), so));
        if !acc {
            break;
        }
    }
    Ok(out)
}

pub fn validate_walk(nets: &[(String, Network)], c: &SsCase, explored: &SetSpeedTrainSim) -> Result<(), String> {
    // the explored sim carries the complete trace; walk a fresh sim (assembled the same way as the case's root) over it
    let mut fresh = build_sim(nets, &SsCase { path: vec![], ..c.clone() })?;
    fresh.speed_trace = explored.speed_trace.clone();
    match guarded(|| fresh.walk()) {
        Ok(Ok(())) => {
            // walk() saves the initial state first; the explorer's incremental steps do not
            if fresh.state == explored.state && fresh.loco_con.state == explored.loco_con.state && fresh.history.len() == explored.history.len() + 1 {
                Ok(())
            } else {
                let d = crate::props::c17::first_diff(&serde_json::to_value(&fresh.state).unwrap_or_default(), &serde_json::to_value(&explored.state).unwrap_or_default(), 0.0, "state");
                Err(format!("SetSpeedTrainSim::walk ends in a different state than the incrementally explored object (state eq {}, consist eq {}, history {} vs {}+1; first diff {:?}) for {:?}", fresh.state == explored.state, fresh.loco_con.state == explored.loco_con.state, fresh.history.len(), explored.history.len(), d, c))
            }
        }
        Ok(Err(e)) => Err(format!("walk failed where the explorer accepted every step: {e:#} for {:?}", c)),
        Err(p) => Err(format!("walk panicked: {p}")),
    }
}

pub fn replay(which: &str, case: &Value) -> ReplayOutcome {
    let c: SsCase = match serde_json::from_value(case.clone()) {
        Ok(c) => c,
        Err(e) => return ReplayOutcome { violations: vec![("bad-replay-file".into(), e.to_string())], observation: String::new() },
    };
    let nets = networks();
    let r = refs(&nets, &c);
    let mut v = vec![];
    let mut obs = String::new();
    if which == "C12" {
        if let Ok(root) = build_sim(&nets, &c) {
            let st = &root.state;
            if !close_tol(st.offset_back.value, st.offset.value - st.length.value, 1e-12, 1e-9) {
                v.push(("initial-rear-position-not-front-minus-length@TrainState::new:set-speed".to_string(), format!("offset_back {} but offset {} - length {}", st.offset_back.value, st.offset.value, st.length.value)));
            }
            if st.total_dist.value != 0.0 {
                v.push(("initial-total-distance-not-zero@TrainState::new:set-speed".to_string(), format!("total_dist {} before the first step", st.total_dist.value)));
            }
        }
    }
    match run_case(&nets, &c) {
        Err(e) => v.push(("valid-train-rejected@TrainSimBuilder::make_set_speed_train_sim".to_string(), e)),
        Ok(steps) => {
            let mut checks = 0;
            for (k, (p, s, so)) in steps.iter().enumerate() {
                if c.path[k] >= 100 {
                    if so.accepted || so.panicked {
                        v.push(("negative-speed-accepted@SetSpeedTrainSim::solve_step:set-speed".into(), format!("accepted={} panicked={}", so.accepted, so.panicked)));
                    }
                    continue;
                }
                if so.panicked {
                    v.push((format!("panic@SetSpeedTrainSim::step:{which}"), so.err.clone()));
                } else if so.accepted {
                    v.extend(oracle(which, &r, p, s, so, &mut checks));
                }
            }
            if let Some((_, s, _)) = steps.last() {
                obs = format!("i={} offset={} speed={} pwr={}", s.state.i, s.state.offset.value, s.state.speed.value, s.state.pwr_whl_out.value);
            }
            if let Some((_, _, so)) = steps.last() {
                if !so.accepted {
                    obs.push_str(&format!(" last-step-rejected: {}", so.err.chars().take(400).collect::<String>().replace('\n', " | ")));
                }
            }
        }
    }
    ReplayOutcome { violations: v, observation: obs }
}
