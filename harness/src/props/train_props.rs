//! C07 / C11 / C12 / C14 (and later C03): train-level explorations.
use crate::engine::{Ctx, Prop, ReplayOutcome, Tier};
use serde_json::Value;

pub struct TrainProp {
    pub which: &'static str,
}

impl Prop for TrainProp {
    fn id(&self) -> &'static str {
        self.which
    }
    fn rule(&self, tier: Tier) -> String {
        if self.which == "C03" {
            return super::speedlimit_lab::rule(self.which, tier);
        }
        let mut s = super::setspeed_lab::rule(self.which, tier);
        if self.which != "C14" {
            s.push_str(" PLUS speed-limited runs: ");
            s.push_str(&super::speedlimit_lab::rule(self.which, tier));
        }
        s
    }
    fn assumptions(&self) -> Vec<String> {
        vec![
            "forces saved at step k belong to the position/speed saved at step k-1 (the simulators evaluate resistance before they advance)".into(),
            "reference geometry = walk of the route's own network points (continuous elevations across links)".into(),
            "aggregated rolling / Davis-B coefficients are the mass-averaged per-car values over the towed mass, recomputed independently from the rail vehicles".into(),
            "tolerances per DESIGN 1.6".into(),
        ]
    }
    fn wall_cap_s(&self, tier: Tier) -> u64 {
        match tier {
            Tier::Quick => 120,
            Tier::Thorough => 2400,
        }
    }
    fn explore(&self, ctx: &mut Ctx) {
        if self.which != "C03" {
            super::setspeed_lab::explore(ctx, self.which);
        }
        if self.which != "C14" {
            super::speedlimit_lab::explore(ctx, self.which);
        }
        ctx.finish();
    }
    fn replay(&self, case: &Value) -> ReplayOutcome {
        if case.get("sl").is_some() {
            super::speedlimit_lab::replay(self.which, case)
        } else {
            super::setspeed_lab::replay(self.which, case)
        }
    }
}
