//! Finite generators for the shared domains of DESIGN §2.
pub mod net;
pub mod pt;
pub mod train;
pub mod disp;
