//! Track-network construction helpers (NET/ROUTE domain).
use altrios_core::track::{
    CatPowerLimit, Elev, Heading, Link, LinkIdx, Network, SpeedLimit, SpeedSet, TrainParams, TrainType,
};
use altrios_core::uc;
use std::collections::HashMap;

pub fn lidx(i: usize) -> LinkIdx {
    LinkIdx::new(i as u32)
}

pub fn train_params(length_m: f64, speed_max: f64) -> TrainParams {
    TrainParams {
        length: length_m * uc::M,
        speed_max: speed_max * uc::MPS,
        towed_mass_static: 1.0e6 * uc::KG,
        mass_per_brake: 1.0e4 * uc::KG,
        axle_count: 400,
        train_type: TrainType::Freight,
        curve_coeff_0: 0.0072 * uc::R,
        curve_coeff_1: 0.0021 * uc::R,
        curve_coeff_2: 0.00013 * uc::R,
    }
}

pub fn elevs_from(points: &[(f64, f64)]) -> Vec<Elev> {
    points.iter().map(|(o, e)| Elev { offset: *o * uc::M, elev: *e * uc::M }).collect()
}
pub fn headings_from(points: &[(f64, f64)]) -> Vec<Heading> {
    points
        .iter()
        .map(|(o, h)| Heading { offset: *o * uc::M, heading: *h * uc::RAD, lat: None, lon: None })
        .collect()
}
pub fn speed_limits_from(lims: &[(f64, f64, f64)]) -> Vec<SpeedLimit> {
    lims.iter()
        .map(|(s, e, v)| SpeedLimit { offset_start: *s * uc::M, offset_end: *e * uc::M, speed: *v * uc::MPS })
        .collect()
}
pub fn cat_from(secs: &[(f64, f64, f64)]) -> Vec<CatPowerLimit> {
    secs.iter()
        .map(|(s, e, p)| CatPowerLimit { offset_start: *s * uc::M, offset_end: *e * uc::M, power_limit: *p * uc::W, district_id: None })
        .collect()
}

/// how the speed set is attached to the link: `speed_set: Some(..)` or `speed_sets[Freight]`
#[derive(Clone, Copy, Debug, PartialEq, Eq)]
pub enum SetStyle {
    Single,
    Map,
}

/// a plain link (no connectivity) with flat elevation unless given
pub fn link(idx: usize, length_m: f64, elevs: Vec<Elev>, headings: Vec<Heading>, speed_set: SpeedSet, style: SetStyle) -> Link {
    let mut l = Link::default();
    l.idx_curr = lidx(idx);
    l.length = length_m * uc::M;
    l.elevs = if elevs.is_empty() { elevs_from(&[(0.0, 0.0), (length_m, 0.0)]) } else { elevs };
    l.headings = headings;
    match style {
        SetStyle::Single => {
            l.speed_set = Some(speed_set);
        }
        SetStyle::Map => {
            let mut m = HashMap::new();
            m.insert(TrainType::Freight, speed_set);
            l.speed_sets = m;
        }
    }
    l
}

/// chain links 1..n in a line (idx_next / idx_prev), no flips
pub fn chain(mut links: Vec<Link>) -> Network {
    let n = links.len();
    for i in 0..n {
        links[i].idx_curr = lidx(i + 1);
        links[i].idx_prev = if i > 0 { lidx(i) } else { lidx(0) };
        links[i].idx_next = if i + 1 < n { lidx(i + 2) } else { lidx(0) };
    }
    let mut v = vec![Link::default()];
    v.extend(links);
    Network(v)
}

// ---------------------------------------------------------------------------------------------
// Topology builder: forward links with explicit connectivity, flipped twins generated mechanically
// ---------------------------------------------------------------------------------------------

/// one forward link of a topology (indices are 1-based positions among the forward links)
#[derive(Clone, Debug)]
pub struct FwdLink {
    pub length_m: f64,
    pub next: usize,
    pub next_alt: usize,
    pub prev: usize,
    pub prev_alt: usize,
    /// (offset, elevation) points; empty = flat at `elev0`
    pub elevs: Vec<(f64, f64)>,
    pub headings: Vec<(f64, f64)>,
    pub speed_limits: Vec<(f64, f64, f64)>,
    pub cat: Vec<(f64, f64, f64)>,
    pub head_end: bool,
    /// lockout partners (forward indices); flips are added automatically
    pub lockout: Vec<usize>,
}

impl FwdLink {
    pub fn new(length_m: f64, speed: f64) -> Self {
        FwdLink {
            length_m,
            next: 0,
            next_alt: 0,
            prev: 0,
            prev_alt: 0,
            elevs: vec![],
            headings: vec![],
            speed_limits: vec![(0.0, length_m, speed)],
            cat: vec![],
            head_end: false,
            lockout: vec![],
        }
    }
}

/// Build a network from forward links; forward link i gets index i, its flip index n+i.
/// `with_flips=false` builds a one-directional network (no flips).
pub fn build_topology(fwd: &[FwdLink], with_flips: bool, style: SetStyle) -> Network {
    let n = fwd.len();
    let mut links = vec![Link::default()];
    for (i, f) in fwd.iter().enumerate() {
        let ss = SpeedSet { speed_limits: speed_limits_from(&f.speed_limits), speed_params: vec![], is_head_end: f.head_end };
        let mut l = link(i + 1, f.length_m, elevs_from(&f.elevs), headings_from(&f.headings), ss, style);
        l.idx_next = lidx(f.next);
        l.idx_next_alt = lidx(f.next_alt);
        l.idx_prev = lidx(f.prev);
        l.idx_prev_alt = lidx(f.prev_alt);
        l.cat_power_limits = cat_from(&f.cat);
        if with_flips {
            l.idx_flip = lidx(n + i + 1);
        }
        let mut lock: Vec<LinkIdx> = vec![];
        for k in &f.lockout {
            lock.push(lidx(*k));
            if with_flips {
                lock.push(lidx(n + *k));
            }
        }
        l.link_idxs_lockout = lock;
        links.push(l);
    }
    if with_flips {
        let fl = |k: usize| if k == 0 { 0 } else { n + k };
        for (i, f) in fwd.iter().enumerate() {
            let len = f.length_m;
            let mut elevs: Vec<(f64, f64)> = if f.elevs.is_empty() { vec![(0.0, 0.0), (len, 0.0)] } else { f.elevs.clone() };
            elevs = elevs.iter().rev().map(|(o, e)| (len - o, *e)).collect();
            let headings: Vec<(f64, f64)> = f.headings.iter().rev().map(|(o, h)| (len - o, (h + std::f64::consts::PI) % (2.0 * std::f64::consts::PI))).collect();
            let mut sl: Vec<(f64, f64, f64)> = f.speed_limits.iter().map(|(s, e, v)| (len - e, len - s, *v)).collect();
            sl.sort_by(|a, b| a.partial_cmp(b).unwrap());
            let mut cat: Vec<(f64, f64, f64)> = f.cat.iter().map(|(s, e, p)| (len - e, len - s, *p)).collect();
            cat.sort_by(|a, b| a.partial_cmp(b).unwrap());
            let ss = SpeedSet { speed_limits: speed_limits_from(&sl), speed_params: vec![], is_head_end: f.head_end };
            let mut l = link(n + i + 1, len, elevs_from(&elevs), headings_from(&headings), ss, style);
            l.idx_flip = lidx(i + 1);
            l.idx_next = lidx(fl(f.prev));
            l.idx_next_alt = lidx(fl(f.prev_alt));
            l.idx_prev = lidx(fl(f.next));
            l.idx_prev_alt = lidx(fl(f.next_alt));
            l.cat_power_limits = cat_from(&cat);
            let mut lock: Vec<LinkIdx> = vec![];
            for k in &f.lockout {
                lock.push(lidx(*k));
                lock.push(lidx(n + *k));
            }
            l.link_idxs_lockout = lock;
            links.push(l);
        }
    }
    Network(links)
}

/// make elevations continuous across connected links: assigns each forward link a start elevation by
/// walking `next` from link 1 (call before build_topology on patterns given relative to 0)
pub fn line_topology(lengths: &[f64], speed: f64) -> Vec<FwdLink> {
    let n = lengths.len();
    (0..n)
        .map(|i| {
            let mut f = FwdLink::new(lengths[i], speed);
            f.prev = i; // 0 for the first
            f.next = if i + 1 < n { i + 2 } else { 0 };
            f
        })
        .collect()
}

/// A(1) -> [B(2) main | C(3) siding] -> D(4)
pub fn siding_topology(len_a: f64, len_b: f64, len_c: f64, len_d: f64, speed: f64) -> Vec<FwdLink> {
    let mut a = FwdLink::new(len_a, speed);
    let mut b = FwdLink::new(len_b, speed);
    let mut c = FwdLink::new(len_c, speed);
    let mut d = FwdLink::new(len_d, speed);
    a.next = 2;
    a.next_alt = 3;
    b.prev = 1;
    c.prev = 1;
    b.next = 4;
    c.next = 4;
    d.prev = 2;
    d.prev_alt = 3;
    vec![a, b, c, d]
}

/// Y: A(1) and B(2) merge into C(3)   (A primary)
pub fn y_merge_topology(len_a: f64, len_b: f64, len_c: f64, speed: f64) -> Vec<FwdLink> {
    let mut a = FwdLink::new(len_a, speed);
    let mut b = FwdLink::new(len_b, speed);
    let mut c = FwdLink::new(len_c, speed);
    a.next = 3;
    b.next = 3;
    c.prev = 1;
    c.prev_alt = 2;
    vec![a, b, c]
}

// ---------------------------------------------------------------------------------------------
// Link feature catalogue (NET/ROUTE): elevation / heading / catenary patterns
// ---------------------------------------------------------------------------------------------

/// relative elevation pattern; returns points (offset, elev) starting at `e0`, and the end elevation
pub fn elev_pattern(kind: u8, len: f64, e0: f64) -> (Vec<(f64, f64)>, f64) {
    let pts: Vec<(f64, f64)> = match kind {
        0 => vec![(0.0, e0), (len, e0)],                                                   // flat
        1 => vec![(0.0, e0), (len, e0 + 0.01 * len)],                                      // +1 %
        2 => vec![(0.0, e0), (len, e0 - 0.015 * len)],                                     // -1.5 %
        3 => vec![(0.0, e0), (len * 0.5, e0 - 0.005 * len), (len, e0)],                    // vee
        _ => vec![(0.0, e0), (len * 0.25, e0 + 0.0025 * len), (len * 0.5, e0 + 0.0025 * len), (len, e0 - 0.0025 * len)], // 4 points
    };
    let end = pts.last().unwrap().1;
    (pts, end)
}

/// heading pattern: 0 absent, 1 straight, 2 gentle curve (2 deg / 100 ft), 3 wrap-around increasing (6.2 -> 0.1),
/// 4 three points with a sharp then gentle curve, 5 wrap-around decreasing (0.1 -> 6.2)
pub fn heading_pattern(kind: u8, len: f64) -> Vec<(f64, f64)> {
    let two_deg_per_100ft = 2.0 * 1.745_329_251_994_329_5e-2 / 30.48; // rad per m
    match kind {
        0 => vec![],
        1 => vec![(0.0, 1.0), (len, 1.0)],
        2 => vec![(0.0, 1.0), (len, (1.0 + two_deg_per_100ft * len.min(200.0)) % 6.28)],
        3 => vec![(0.0, 6.2), (len, 0.1)],
        4 => vec![(0.0, 0.5), (len * 0.3, 0.5 + (0.0015 * len * 0.3).min(1.0)), (len, 0.5 + (0.0015 * len * 0.3).min(1.0) + (0.0001 * len * 0.7).min(0.5))],
        _ => vec![(0.0, 0.1), (len, 6.2)],
    }
}

/// catenary pattern: 0 none, 1 one section, 2 two disjoint sections
pub fn cat_pattern(kind: u8, len: f64) -> Vec<(f64, f64, f64)> {
    match kind {
        0 => vec![],
        1 => vec![(len * 0.2, len * 0.7, 4.0e6)],
        _ => vec![(0.0, len * 0.3, 5.0e6), (len * 0.5, len, 3.0e6)],
    }
}
