//! Track-network construction helpers (NET/ROUTE domain).
use altrios_core::track::{
    CatPowerLimit, Elev, Heading, Link, LinkIdx, Network, SpeedLimit, SpeedSet, TrainParams, TrainType,
};
use altrios_core::uc;
use std::collections::HashMap;

pub fn lidx(i: usize) -> LinkIdx {
    LinkIdx::new(i as u32)
}

pub fn train_params(length_m: f64, speed_max: f64) -> TrainParams {
    TrainParams {
        length: length_m * uc::M,
        speed_max: speed_max * uc::MPS,
        towed_mass_static: 1.0e6 * uc::KG,
        mass_per_brake: 1.0e4 * uc::KG,
        axle_count: 400,
        train_type: TrainType::Freight,
        curve_coeff_0: 0.0072 * uc::R,
        curve_coeff_1: 0.0021 * uc::R,
        curve_coeff_2: 0.00013 * uc::R,
    }
}

pub fn elevs_from(points: &[(f64, f64)]) -> Vec<Elev> {
    points.iter().map(|(o, e)| Elev { offset: *o * uc::M, elev: *e * uc::M }).collect()
}
pub fn headings_from(points: &[(f64, f64)]) -> Vec<Heading> {
    points
        .iter()
        .map(|(o, h)| Heading { offset: *o * uc::M, heading: *h * uc::RAD, lat: None, lon: None })
        .collect()
}
pub fn speed_limits_from(lims: &[(f64, f64, f64)]) -> Vec<SpeedLimit> {
    lims.iter()
        .map(|(s, e, v)| SpeedLimit { offset_start: *s * uc::M, offset_end: *e * uc::M, speed: *v * uc::MPS })
        .collect()
}
pub fn cat_from(secs: &[(f64, f64, f64)]) -> Vec<CatPowerLimit> {
    secs.iter()
        .map(|(s, e, p)| CatPowerLimit { offset_start: *s * uc::M, offset_end: *e * uc::M, power_limit: *p * uc::W, district_id: None })
        .collect()
}

/// how the speed set is attached to the link: `speed_set: Some(..)` or `speed_sets[Freight]`
#[derive(Clone, Copy, Debug, PartialEq, Eq)]
pub enum SetStyle {
    Single,
    Map,
}

/// a plain link (no connectivity) with flat elevation unless given
pub fn link(idx: usize, length_m: f64, elevs: Vec<Elev>, headings: Vec<Heading>, speed_set: SpeedSet, style: SetStyle) -> Link {
    let mut l = Link::default();
    l.idx_curr = lidx(idx);
    l.length = length_m * uc::M;
    l.elevs = if elevs.is_empty() { elevs_from(&[(0.0, 0.0), (length_m, 0.0)]) } else { elevs };
    l.headings = headings;
    match style {
        SetStyle::Single => {
            l.speed_set = Some(speed_set);
        }
        SetStyle::Map => {
            let mut m = HashMap::new();
            m.insert(TrainType::Freight, speed_set);
            l.speed_sets = m;
        }
    }
    l
}

/// chain links 1..n in a line (idx_next / idx_prev), no flips
pub fn chain(mut links: Vec<Link>) -> Network {
    let n = links.len();
    for i in 0..n {
        links[i].idx_curr = lidx(i + 1);
        links[i].idx_prev = if i > 0 { lidx(i) } else { lidx(0) };
        links[i].idx_next = if i + 1 < n { lidx(i + 2) } else { lidx(0) };
    }
    let mut v = vec![Link::default()];
    v.extend(links);
    Network(v)
}
