//! Dispatch family: topologies with terminals, trains, cached estimated-time networks.
use crate::domain::net::*;
use crate::domain::train::*;
use altrios_core::meet_pass::est_times::{make_est_times, EstTimeNet};
use altrios_core::track::Network;
use altrios_core::train::{InitTrainState, SpeedLimitTrainSim};
use altrios_core::uc;
use serde::{Deserialize, Serialize};
use std::collections::HashMap;

pub struct Topo {
    pub name: String,
    pub net: Network,
    /// number of forward links (flip of forward link i is n_fwd + i)
    pub n_fwd: usize,
    /// terminals: (name, forward link indices that leave the terminal eastbound / arrive westbound)
    pub terminals: Vec<(String, Vec<usize>)>,
    /// allowed (origin terminal, destination terminal, eastbound?) pairs
    pub ods: Vec<(usize, usize, bool)>,
}

const YARD: f64 = 10_000.0;

fn finish(name: &str, fwd: Vec<FwdLink>, terminals: Vec<(&str, Vec<usize>)>, ods: Vec<(usize, usize, bool)>) -> Topo {
    let n_fwd = fwd.len();
    Topo { name: name.to_string(), net: build_topology(&fwd, true, SetStyle::Single), n_fwd, terminals: terminals.into_iter().map(|(n, l)| (n.to_string(), l)).collect(), ods }
}

/// link length variants for the middle links: 0 => 500 m, 1 => 3 km, 2 => 20 km
pub fn mid_len(k: u8) -> f64 {
    match k {
        0 => 500.0,
        1 => 3000.0,
        _ => 20_000.0,
    }
}

pub fn topologies(thorough: bool) -> Vec<Topo> {
    let mut v = vec![];
    let mids: Vec<u8> = if thorough { vec![0, 1, 2] } else { vec![1] };
    for &m in &mids {
        let ml = mid_len(m);
        // T0: plain line  YW -> S -> YE
        {
            let f = line_topology(&[YARD, ml, YARD], 20.0);
            v.push(finish(&format!("line-m{m}"), f, vec![("W", vec![1]), ("E", vec![3])], vec![(0, 1, true), (1, 0, false)]));
        }
        // T1: single siding  YW(1) -> S1(2) -> [M(3) | SD(4)] -> S2(5) -> YE(6)
        {
            let mut f: Vec<FwdLink> = (0..6).map(|i| FwdLink::new(if i == 0 || i == 5 { YARD } else if i == 2 || i == 3 { 2000.0 } else { ml }, 20.0)).collect();
            f[0].next = 2;
            f[1].prev = 1;
            f[1].next = 3;
            f[1].next_alt = 4;
            f[2].prev = 2;
            f[3].prev = 2;
            f[2].next = 5;
            f[3].next = 5;
            f[4].prev = 3;
            f[4].prev_alt = 4;
            f[4].next = 6;
            f[5].prev = 5;
            // the siding is slower
            f[3].speed_limits = vec![(0.0, 2000.0, 10.0)];
            v.push(finish(&format!("siding-m{m}"), f, vec![("W", vec![1]), ("E", vec![6])], vec![(0, 1, true), (1, 0, false)]));
        }
        // T2: two-track terminals: [W1(1) | W2(2)] -> S(3) -> [E1(4) | E2(5)]   (W1/E1 primary)
        {
            let mut f: Vec<FwdLink> = (0..5).map(|i| FwdLink::new(if i == 2 { ml } else { YARD }, 20.0)).collect();
            f[0].next = 3;
            f[1].next = 3;
            f[2].prev = 1;
            f[2].prev_alt = 2;
            f[2].next = 4;
            f[2].next_alt = 5;
            f[3].prev = 3;
            f[4].prev = 3;
            // second tracks are slower (different free-running times per origin)
            f[1].speed_limits = vec![(0.0, YARD, 12.0)];
            f[4].speed_limits = vec![(0.0, YARD, 12.0)];
            v.push(finish(&format!("yards-m{m}"), f, vec![("W", vec![1, 2]), ("E", vec![4, 5])], vec![(0, 1, true), (1, 0, false)]));
        }
    }
    // T3: two sidings  YW(1) S1(2) [M1(3)|SD1(4)] S2(5) [M2(6)|SD2(7)] S3(8) YE(9)
    {
        let lens = [YARD, 3000.0, 2000.0, 2000.0, 3000.0, 2000.0, 2000.0, 3000.0, YARD];
        let mut f: Vec<FwdLink> = lens.iter().map(|l| FwdLink::new(*l, 20.0)).collect();
        let set = |f: &mut Vec<FwdLink>, i: usize, prev: usize, prev_alt: usize, next: usize, next_alt: usize| {
            f[i - 1].prev = prev;
            f[i - 1].prev_alt = prev_alt;
            f[i - 1].next = next;
            f[i - 1].next_alt = next_alt;
        };
        set(&mut f, 1, 0, 0, 2, 0);
        set(&mut f, 2, 1, 0, 3, 4);
        set(&mut f, 3, 2, 0, 5, 0);
        set(&mut f, 4, 2, 0, 5, 0);
        set(&mut f, 5, 3, 4, 6, 7);
        set(&mut f, 6, 5, 0, 8, 0);
        set(&mut f, 7, 5, 0, 8, 0);
        set(&mut f, 8, 6, 7, 9, 0);
        set(&mut f, 9, 8, 0, 0, 0);
        f[3].speed_limits = vec![(0.0, 2000.0, 10.0)];
        f[6].speed_limits = vec![(0.0, 2000.0, 10.0)];
        v.push(finish("two-sidings", f, vec![("W", vec![1]), ("E", vec![9])], vec![(0, 1, true), (1, 0, false)]));
    }
    // T7: double track with a crossover, single-track terminals (coincident switch points are not valid, so the
    // crossover is a link of its own):  YW(1) -> [A1(2) | B1(3)];  A1 -> A2(4) | X(6) -> B2(5);  B1 -> B2;  [A2 | B2] -> YE(7)
    // (opposing trains pass each other on parallel tracks: free paths are re-routed around the moved train; a train
    // following another one and blocked behind it is rewound when its tentative advance leaves a third train no path)
    {
        // first section 1.2 km: a 1080 m train held at the second section keeps its tail 120 m into A1, so a follower
        // held behind it still stands on the single-track terminal link
        let lens = [YARD, 1200.0, 1200.0, 4000.0, 4000.0, 300.0, YARD];
        let mut f: Vec<FwdLink> = lens.iter().map(|l| FwdLink::new(*l, 20.0)).collect();
        let set = |f: &mut Vec<FwdLink>, i: usize, prev: usize, prev_alt: usize, next: usize, next_alt: usize| {
            f[i - 1].prev = prev;
            f[i - 1].prev_alt = prev_alt;
            f[i - 1].next = next;
            f[i - 1].next_alt = next_alt;
        };
        set(&mut f, 1, 0, 0, 2, 3);
        set(&mut f, 2, 1, 0, 4, 6);
        set(&mut f, 3, 1, 0, 5, 0);
        set(&mut f, 4, 2, 0, 7, 0);
        set(&mut f, 5, 3, 6, 7, 0);
        set(&mut f, 6, 2, 0, 5, 0);
        set(&mut f, 7, 4, 5, 0, 0);
        f[2].speed_limits = vec![(0.0, 1200.0, 12.0)];
        f[4].speed_limits = vec![(0.0, 4000.0, 12.0)];
        f[5].speed_limits = vec![(0.0, 300.0, 8.0)];
        v.push(finish("double-track", f.clone(), vec![("W", vec![1]), ("E", vec![7])], vec![(0, 1, true), (1, 0, false)]));
        // the same tracks with lockout declarations on links a held follower is rewound over (B1 x A2):
        // a roll-back then has to give back the blocks of the locked-out links together with the link's own
        let mut g = f.clone();
        g[2].lockout = vec![4];
        g[3].lockout = vec![3];
        v.push(finish("double-track-locked", g, vec![("W", vec![1]), ("E", vec![7])], vec![(0, 1, true), (1, 0, false)]));
        // every roll-back of the family hands back the origin link and A1: declarations on exactly those links
        // (A1 x B1: the first parallel section is one interlocking; YW x YE: the two single-track terminals)
        let mut g = f.clone();
        g[1].lockout = vec![3];
        g[2].lockout = vec![2];
        v.push(finish("double-track-locked-a1", g, vec![("W", vec![1]), ("E", vec![7])], vec![(0, 1, true), (1, 0, false)]));
        let mut g = f.clone();
        g[0].lockout = vec![7];
        g[6].lockout = vec![1];
        v.push(finish("double-track-locked-yards", g, vec![("W", vec![1]), ("E", vec![7])], vec![(0, 1, true), (1, 0, false)]));
        // (NOT generated: A1 x B2 -- the route A1 -> X -> B2 would contain two mutually exclusive links less than a train
        // length apart; the dispatcher then reports an infinite arrival time on B2 instead of an error.  Observation,
        // DESIGN 6, not claimed as a finding: such a route can never be run.)
    }
    // T8: two-track terminals joined by double track with one crossover
    //     W1(1) -> A(3) -> E1(5) | X(7) -> E2(6);   W2(2) -> B(4) -> E2(6)
    {
        let lens = [YARD, YARD, 5000.0, 5000.0, YARD, YARD, 300.0];
        let mut f: Vec<FwdLink> = lens.iter().map(|l| FwdLink::new(*l, 20.0)).collect();
        let set = |f: &mut Vec<FwdLink>, i: usize, prev: usize, prev_alt: usize, next: usize, next_alt: usize| {
            f[i - 1].prev = prev;
            f[i - 1].prev_alt = prev_alt;
            f[i - 1].next = next;
            f[i - 1].next_alt = next_alt;
        };
        set(&mut f, 1, 0, 0, 3, 0);
        set(&mut f, 2, 0, 0, 4, 0);
        set(&mut f, 3, 1, 0, 5, 7);
        set(&mut f, 4, 2, 0, 6, 0);
        set(&mut f, 5, 3, 0, 0, 0);
        set(&mut f, 6, 4, 7, 0, 0);
        set(&mut f, 7, 3, 0, 6, 0);
        f[1].speed_limits = vec![(0.0, YARD, 12.0)];
        f[3].speed_limits = vec![(0.0, 5000.0, 12.0)];
        f[5].speed_limits = vec![(0.0, YARD, 12.0)];
        f[6].speed_limits = vec![(0.0, 300.0, 8.0)];
        v.push(finish("double-track-yards", f, vec![("W", vec![1, 2]), ("E", vec![5, 6])], vec![(0, 1, true), (1, 0, false)]));
    }
    // T9: two double-track sections joined by a single-track bridge:
    //     YW(1) -> [A1(2) | B1(3)] -> BR(4) -> [A2(5) | B2(6)] -> YE(7)
    // (trains are held with the tail on the bridge; followers are held mid-route behind them)
    {
        let lens = [YARD, 1500.0, 1500.0, 600.0, 1500.0, 1500.0, YARD];
        let mut f: Vec<FwdLink> = lens.iter().map(|l| FwdLink::new(*l, 20.0)).collect();
        let set = |f: &mut Vec<FwdLink>, i: usize, prev: usize, prev_alt: usize, next: usize, next_alt: usize| {
            f[i - 1].prev = prev;
            f[i - 1].prev_alt = prev_alt;
            f[i - 1].next = next;
            f[i - 1].next_alt = next_alt;
        };
        set(&mut f, 1, 0, 0, 2, 3);
        set(&mut f, 2, 1, 0, 4, 0);
        set(&mut f, 3, 1, 0, 4, 0);
        set(&mut f, 4, 2, 3, 5, 6);
        set(&mut f, 5, 4, 0, 7, 0);
        set(&mut f, 6, 4, 0, 7, 0);
        set(&mut f, 7, 5, 6, 0, 0);
        f[2].speed_limits = vec![(0.0, 1500.0, 12.0)];
        f[5].speed_limits = vec![(0.0, 1500.0, 12.0)];
        v.push(finish("bridge", f, vec![("W", vec![1]), ("E", vec![7])], vec![(0, 1, true), (1, 0, false)]));
    }
    // T10: full double track with a scissors crossover in the middle, two-track terminals:
    //     W1(1) -> A1(3) -> MA(11) -> A2(5) -> E1(7);   W2(2) -> B1(4) -> MB(12) -> B2(6) -> E2(8)
    //     crossovers X1(9): A1 -> B2 and X2(10): B1 -> A2  (switch points kept apart by MA / MB)
    // (variant "scissors-locked": the two crossovers, which cross each other, are declared mutually exclusive)
    for locked in [false, true] {
        let lens = [YARD, YARD, 1200.0, 1200.0, 1200.0, 1200.0, YARD, YARD, 300.0, 300.0, 300.0, 300.0];
        let mut f: Vec<FwdLink> = lens.iter().map(|l| FwdLink::new(*l, 20.0)).collect();
        let set = |f: &mut Vec<FwdLink>, i: usize, prev: usize, prev_alt: usize, next: usize, next_alt: usize| {
            f[i - 1].prev = prev;
            f[i - 1].prev_alt = prev_alt;
            f[i - 1].next = next;
            f[i - 1].next_alt = next_alt;
        };
        set(&mut f, 1, 0, 0, 3, 0);
        set(&mut f, 2, 0, 0, 4, 0);
        set(&mut f, 3, 1, 0, 11, 9);
        set(&mut f, 4, 2, 0, 12, 10);
        set(&mut f, 11, 3, 0, 5, 0);
        set(&mut f, 12, 4, 0, 6, 0);
        set(&mut f, 9, 3, 0, 6, 0);
        set(&mut f, 10, 4, 0, 5, 0);
        set(&mut f, 5, 11, 10, 7, 0);
        set(&mut f, 6, 12, 9, 8, 0);
        set(&mut f, 7, 5, 0, 0, 0);
        set(&mut f, 8, 6, 0, 0, 0);
        f[1].speed_limits = vec![(0.0, YARD, 12.0)];
        f[3].speed_limits = vec![(0.0, 1200.0, 12.0)];
        f[5].speed_limits = vec![(0.0, 1200.0, 12.0)];
        f[7].speed_limits = vec![(0.0, YARD, 12.0)];
        f[8].speed_limits = vec![(0.0, 300.0, 8.0)];
        f[9].speed_limits = vec![(0.0, 300.0, 8.0)];
        if locked {
            f[8].lockout = vec![10];
            f[9].lockout = vec![9];
        }
        v.push(finish(if locked { "scissors-locked" } else { "scissors" }, f, vec![("W", vec![1, 2]), ("E", vec![7, 8])], vec![(0, 1, true), (1, 0, false)]));
    }
    // T11: terminals shorter than / comparable to the trains (quick tier: the 900 m terminal behind a siding only)
    for t in short_terminal_topologies(false) {
        if t.name == "short-dest-siding-900" || (thorough && (t.name == "short-dest-line-500" || t.name == "short-dest-siding-200")) {
            v.push(t);
        }
    }
    // T6: intermediate terminal: YW(1) -> MID(2, 12 km, also a destination/origin) -> [M(3) | SD(4)] -> S2(5) -> YE(6)
    // (trains with different destinations follow each other; one terminates on the link in which the other is held
    // at the turnout)
    {
        let lens = [YARD, 12_000.0, 2000.0, 2000.0, 3000.0, YARD];
        let mut f: Vec<FwdLink> = lens.iter().map(|l| FwdLink::new(*l, 20.0)).collect();
        let set = |f: &mut Vec<FwdLink>, i: usize, prev: usize, prev_alt: usize, next: usize, next_alt: usize| {
            f[i - 1].prev = prev;
            f[i - 1].prev_alt = prev_alt;
            f[i - 1].next = next;
            f[i - 1].next_alt = next_alt;
        };
        set(&mut f, 1, 0, 0, 2, 0);
        set(&mut f, 2, 1, 0, 3, 4);
        set(&mut f, 3, 2, 0, 5, 0);
        set(&mut f, 4, 2, 0, 5, 0);
        set(&mut f, 5, 3, 4, 6, 0);
        set(&mut f, 6, 5, 0, 0, 0);
        f[3].speed_limits = vec![(0.0, 2000.0, 10.0)];
        v.push(finish("mid-terminal", f, vec![("W", vec![1]), ("MID", vec![2]), ("E", vec![6])], vec![(0, 2, true), (0, 1, true), (2, 0, false), (2, 1, false), (1, 2, true)]));
    }
    // T4: junction  A(1), B(2) merge into C(3) -> D(4); terminals A, B, D
    {
        let mut f: Vec<FwdLink> = [YARD, YARD, 3000.0, YARD].iter().map(|l| FwdLink::new(*l, 20.0)).collect();
        f[0].next = 3;
        f[1].next = 3;
        f[2].prev = 1;
        f[2].prev_alt = 2;
        f[2].next = 4;
        f[3].prev = 3;
        f[1].speed_limits = vec![(0.0, YARD, 8.0)];
        v.push(finish("junction", f, vec![("A", vec![1]), ("B", vec![2]), ("D", vec![4])], vec![(0, 2, true), (1, 2, true), (2, 0, false), (2, 1, false)]));
    }
    // T5: diamond crossing with symmetric lockouts: X1(1) X2(2) X3(3) and Y1(4) Y2(5) Y3(6); X2 x Y2
    {
        let mut f: Vec<FwdLink> = [YARD, 500.0, YARD, YARD, 500.0, YARD].iter().map(|l| FwdLink::new(*l, 20.0)).collect();
        f[0].next = 2;
        f[1].prev = 1;
        f[1].next = 3;
        f[2].prev = 2;
        f[3].next = 5;
        f[4].prev = 4;
        f[4].next = 6;
        f[5].prev = 5;
        f[1].lockout = vec![5];
        f[4].lockout = vec![2];
        v.push(finish("diamond", f, vec![("XW", vec![1]), ("XE", vec![3]), ("YW", vec![4]), ("YE", vec![6])], vec![(0, 1, true), (1, 0, false), (2, 3, true), (3, 2, false)]));
    }
    v
}

/// C15 only: one pair of alternative routes between the same two switches, a fast main track of length L and a
/// shorter, slower cut-off -- YW(1) -> S1(2) -> [MAIN(3) | CUT(4)] -> S2(5) -> YE(6).  The train has to brake for
/// the cut-off while still on S1, so the alternatives part by speed before the switch and their first steps take a
/// different time; L runs over a 100 m grid so that every ordering of "first step longer / shorter" against "whole
/// detour longer / shorter" occurs, including the narrow band where the two disagree.
pub fn cutoff_topologies(thorough: bool) -> Vec<Topo> {
    let mut v = vec![];
    let cuts: Vec<(f64, f64)> = if thorough { vec![(1000.0, 10.0), (500.0, 8.0), (1500.0, 12.0), (2000.0, 15.0)] } else { vec![(1000.0, 10.0), (500.0, 8.0)] };
    for (cut_len, cut_v) in cuts {
        let mut main = 1000.0;
        while main <= 8000.0 {
            let lens = [YARD, 3000.0, main, cut_len, 3000.0, YARD];
            let mut f: Vec<FwdLink> = lens.iter().map(|l| FwdLink::new(*l, 20.0)).collect();
            let set = |f: &mut Vec<FwdLink>, i: usize, prev: usize, prev_alt: usize, next: usize, next_alt: usize| {
                f[i - 1].prev = prev;
                f[i - 1].prev_alt = prev_alt;
                f[i - 1].next = next;
                f[i - 1].next_alt = next_alt;
            };
            set(&mut f, 1, 0, 0, 2, 0);
            set(&mut f, 2, 1, 0, 3, 4);
            set(&mut f, 3, 2, 0, 5, 0);
            set(&mut f, 4, 2, 0, 5, 0);
            set(&mut f, 5, 3, 4, 6, 0);
            set(&mut f, 6, 5, 0, 0, 0);
            f[3].speed_limits = vec![(0.0, cut_len, cut_v)];
            v.push(finish(&format!("cutoff-L{}-c{}v{}", main as u32, cut_len as u32, cut_v as u32), f, vec![("W", vec![1]), ("E", vec![6])], vec![(0, 1, true), (1, 0, false)]));
            main += 100.0;
        }
    }
    v
}

/// C15 only: terminal links shorter than / comparable to the trains (360 m and 1080 m): the last (first) events of a
/// route fall into the final train length of the path.  Plain line and behind a siding, terminal length on a grid.
pub fn short_terminal_topologies(thorough: bool) -> Vec<Topo> {
    let mut v = vec![];
    let lens: Vec<f64> = if thorough { vec![150.0, 300.0, 500.0, 700.0, 900.0, 1200.0, 1500.0, 2000.0, 2500.0, 3000.0] } else { vec![200.0, 500.0, 900.0, 1500.0, 2500.0] };
    for d in lens {
        // line: YW(1, 10 km) -> S(2, 3 km) -> D(3, short)
        {
            let f = line_topology(&[YARD, 3000.0, d], 20.0);
            v.push(finish(&format!("short-dest-line-{}", d as u32), f, vec![("W", vec![1]), ("D", vec![3])], vec![(0, 1, true), (1, 0, false)]));
        }
        // siding in front of the short terminal: YW(1) -> S1(2) -> [M(3) | SD(4)] -> D(5, short)
        {
            let lens = [YARD, 3000.0, 2000.0, 2000.0, d];
            let mut f: Vec<FwdLink> = lens.iter().map(|l| FwdLink::new(*l, 20.0)).collect();
            let set = |f: &mut Vec<FwdLink>, i: usize, prev: usize, prev_alt: usize, next: usize, next_alt: usize| {
                f[i - 1].prev = prev;
                f[i - 1].prev_alt = prev_alt;
                f[i - 1].next = next;
                f[i - 1].next_alt = next_alt;
            };
            set(&mut f, 1, 0, 0, 2, 0);
            set(&mut f, 2, 1, 0, 3, 4);
            set(&mut f, 3, 2, 0, 5, 0);
            set(&mut f, 4, 2, 0, 5, 0);
            set(&mut f, 5, 3, 4, 0, 0);
            f[3].speed_limits = vec![(0.0, 2000.0, 10.0)];
            v.push(finish(&format!("short-dest-siding-{}", d as u32), f, vec![("W", vec![1]), ("D", vec![5])], vec![(0, 1, true), (1, 0, false)]));
        }
    }
    v
}

#[derive(Debug, Clone, Copy, Serialize, Deserialize, PartialEq, Eq, Hash)]
pub struct TrainDesc {
    /// index into topo.ods
    pub od: usize,
    /// departure time, s
    pub dep: u32,
    /// false: 360 m (20 cars), true: 1080 m (60 cars)
    pub long: bool,
}

pub fn train_spec(long: bool) -> TrainSpec {
    if long {
        TrainSpec { n_loaded: 30, n_empty: 30, davis: false, mass_override: None, length_override: None, consist: 3, cd_vec: false }
    } else {
        TrainSpec { n_loaded: 10, n_empty: 10, davis: false, mass_override: None, length_override: None, consist: 2, cd_vec: false }
    }
}

pub fn origin_dest_links(t: &Topo, od: usize) -> (Vec<usize>, Vec<usize>) {
    let (o, d, east) = t.ods[od];
    if east {
        (t.terminals[o].1.clone(), t.terminals[d].1.clone())
    } else {
        (t.terminals[o].1.iter().map(|l| t.n_fwd + l).collect(), t.terminals[d].1.iter().map(|l| t.n_fwd + l).collect())
    }
}

pub fn make_sim(t: &Topo, d: &TrainDesc, id: usize) -> Result<SpeedLimitTrainSim, String> {
    let (o, de) = origin_dest_links(t, d.od);
    let lm = location_map(&[("ORIG", o), ("DEST", de)]);
    let mut b = builder(&train_spec(d.long), Some(("ORIG", "DEST")), Some(InitTrainState::new(Some(d.dep as f64 * uc::S), None, None)), None);
    b.train_id = format!("T{id}");
    b.make_speed_limit_train_sim(&lm, None, None, None).map_err(|e| format!("{e:#}"))
}

#[derive(Default)]
pub struct EstCache {
    pub map: HashMap<(usize, TrainDesc), Result<EstTimeNet, String>>,
    pub built: u64,
}

impl EstCache {
    pub fn get(&mut self, ti: usize, t: &Topo, d: &TrainDesc) -> Result<EstTimeNet, String> {
        if let Some(r) = self.map.get(&(ti, *d)) {
            return r.clone();
        }
        let r = match make_sim(t, d, 0) {
            Err(e) => Err(e),
            Ok(sim) => match crate::engine::guarded(|| make_est_times(sim, &t.net.0)) {
                Ok(Ok((n, _))) => Ok(n),
                Ok(Err(e)) => Err(format!("{e:#}")),
                Err(p) => Err(format!("PANIC: {p}")),
            },
        };
        self.built += 1;
        self.map.insert((ti, *d), r.clone());
        r
    }
}
