//! Dispatch family: topologies with terminals, trains, cached estimated-time networks.
use crate::domain::net::*;
use crate::domain::train::*;
use altrios_core::meet_pass::est_times::{make_est_times, EstTimeNet};
use altrios_core::track::Network;
use altrios_core::train::{InitTrainState, SpeedLimitTrainSim};
use altrios_core::uc;
use serde::{Deserialize, Serialize};
use std::collections::HashMap;

pub struct Topo {
    pub name: String,
    pub net: Network,
    /// number of forward links (flip of forward link i is n_fwd + i)
    pub n_fwd: usize,
    /// terminals: (name, forward link indices that leave the terminal eastbound / arrive westbound)
    pub terminals: Vec<(String, Vec<usize>)>,
    /// allowed (origin terminal, destination terminal, eastbound?) pairs
    pub ods: Vec<(usize, usize, bool)>,
}

const YARD: f64 = 10_000.0;

fn finish(name: &str, fwd: Vec<FwdLink>, terminals: Vec<(&str, Vec<usize>)>, ods: Vec<(usize, usize, bool)>) -> Topo {
    let n_fwd = fwd.len();
    Topo { name: name.to_string(), net: build_topology(&fwd, true, SetStyle::Single), n_fwd, terminals: terminals.into_iter().map(|(n, l)| (n.to_string(), l)).collect(), ods }
}

/// link length variants for the middle links: 0 => 500 m, 1 => 3 km, 2 => 20 km
pub fn mid_len(k: u8) -> f64 {
    match k {
        0 => 500.0,
        1 => 3000.0,
        _ => 20_000.0,
    }
}

pub fn topologies(thorough: bool) -> Vec<Topo> {
    let mut v = vec![];
    let mids: Vec<u8> = if thorough { vec![0, 1, 2] } else { vec![1] };
    for &m in &mids {
        let ml = mid_len(m);
        // T0: plain line  YW -> S -> YE
        {
            let f = line_topology(&[YARD, ml, YARD], 20.0);
            v.push(finish(&format!("line-m{m}"), f, vec![("W", vec![1]), ("E", vec![3])], vec![(0, 1, true), (1, 0, false)]));
        }
        // T1: single siding  YW(1) -> S1(2) -> [M(3) | SD(4)] -> S2(5) -> YE(6)
        {
            let mut f: Vec<FwdLink> = (0..6).map(|i| FwdLink::new(if i == 0 || i == 5 { YARD } else if i == 2 || i == 3 { 2000.0 } else { ml }, 20.0)).collect();
            f[0].next = 2;
            f[1].prev = 1;
            f[1].next = 3;
            f[1].next_alt = 4;
            f[2].prev = 2;
            f[3].prev = 2;
            f[2].next = 5;
            f[3].next = 5;
            f[4].prev = 3;
            f[4].prev_alt = 4;
            f[4].next = 6;
            f[5].prev = 5;
            // the siding is slower
            f[3].speed_limits = vec![(0.0, 2000.0, 10.0)];
            v.push(finish(&format!("siding-m{m}"), f, vec![("W", vec![1]), ("E", vec![6])], vec![(0, 1, true), (1, 0, false)]));
        }
        // T2: two-track terminals: [W1(1) | W2(2)] -> S(3) -> [E1(4) | E2(5)]   (W1/E1 primary)
        {
            let mut f: Vec<FwdLink> = (0..5).map(|i| FwdLink::new(if i == 2 { ml } else { YARD }, 20.0)).collect();
            f[0].next = 3;
            f[1].next = 3;
            f[2].prev = 1;
            f[2].prev_alt = 2;
            f[2].next = 4;
            f[2].next_alt = 5;
            f[3].prev = 3;
            f[4].prev = 3;
            // second tracks are slower (different free-running times per origin)
            f[1].speed_limits = vec![(0.0, YARD, 12.0)];
            f[4].speed_limits = vec![(0.0, YARD, 12.0)];
            v.push(finish(&format!("yards-m{m}"), f, vec![("W", vec![1, 2]), ("E", vec![4, 5])], vec![(0, 1, true), (1, 0, false)]));
        }
    }
    // T3: two sidings  YW(1) S1(2) [M1(3)|SD1(4)] S2(5) [M2(6)|SD2(7)] S3(8) YE(9)
    {
        let lens = [YARD, 3000.0, 2000.0, 2000.0, 3000.0, 2000.0, 2000.0, 3000.0, YARD];
        let mut f: Vec<FwdLink> = lens.iter().map(|l| FwdLink::new(*l, 20.0)).collect();
        let set = |f: &mut Vec<FwdLink>, i: usize, prev: usize, prev_alt: usize, next: usize, next_alt: usize| {
            f[i - 1].prev = prev;
            f[i - 1].prev_alt = prev_alt;
            f[i - 1].next = next;
            f[i - 1].next_alt = next_alt;
        };
        set(&mut f, 1, 0, 0, 2, 0);
        set(&mut f, 2, 1, 0, 3, 4);
        set(&mut f, 3, 2, 0, 5, 0);
        set(&mut f, 4, 2, 0, 5, 0);
        set(&mut f, 5, 3, 4, 6, 7);
        set(&mut f, 6, 5, 0, 8, 0);
        set(&mut f, 7, 5, 0, 8, 0);
        set(&mut f, 8, 6, 7, 9, 0);
        set(&mut f, 9, 8, 0, 0, 0);
        f[3].speed_limits = vec![(0.0, 2000.0, 10.0)];
        f[6].speed_limits = vec![(0.0, 2000.0, 10.0)];
        v.push(finish("two-sidings", f, vec![("W", vec![1]), ("E", vec![9])], vec![(0, 1, true), (1, 0, false)]));
    }
    // T6: intermediate terminal: YW(1) -> MID(2, 12 km, also a destination/origin) -> [M(3) | SD(4)] -> S2(5) -> YE(6)
    // (trains with different destinations follow each other; one terminates on the link in which the other is held
    // at the turnout)
    {
        let lens = [YARD, 12_000.0, 2000.0, 2000.0, 3000.0, YARD];
        let mut f: Vec<FwdLink> = lens.iter().map(|l| FwdLink::new(*l, 20.0)).collect();
        let set = |f: &mut Vec<FwdLink>, i: usize, prev: usize, prev_alt: usize, next: usize, next_alt: usize| {
            f[i - 1].prev = prev;
            f[i - 1].prev_alt = prev_alt;
            f[i - 1].next = next;
            f[i - 1].next_alt = next_alt;
        };
        set(&mut f, 1, 0, 0, 2, 0);
        set(&mut f, 2, 1, 0, 3, 4);
        set(&mut f, 3, 2, 0, 5, 0);
        set(&mut f, 4, 2, 0, 5, 0);
        set(&mut f, 5, 3, 4, 6, 0);
        set(&mut f, 6, 5, 0, 0, 0);
        f[3].speed_limits = vec![(0.0, 2000.0, 10.0)];
        v.push(finish("mid-terminal", f, vec![("W", vec![1]), ("MID", vec![2]), ("E", vec![6])], vec![(0, 2, true), (0, 1, true), (2, 0, false), (2, 1, false), (1, 2, true)]));
    }
    // T4: junction  A(1), B(2) merge into C(3) -> D(4); terminals A, B, D
    {
        let mut f: Vec<FwdLink> = [YARD, YARD, 3000.0, YARD].iter().map(|l| FwdLink::new(*l, 20.0)).collect();
        f[0].next = 3;
        f[1].next = 3;
        f[2].prev = 1;
        f[2].prev_alt = 2;
        f[2].next = 4;
        f[3].prev = 3;
        f[1].speed_limits = vec![(0.0, YARD, 8.0)];
        v.push(finish("junction", f, vec![("A", vec![1]), ("B", vec![2]), ("D", vec![4])], vec![(0, 2, true), (1, 2, true), (2, 0, false), (2, 1, false)]));
    }
    // T5: diamond crossing with symmetric lockouts: X1(1) X2(2) X3(3) and Y1(4) Y2(5) Y3(6); X2 x Y2
    {
        let mut f: Vec<FwdLink> = [YARD, 500.0, YARD, YARD, 500.0, YARD].iter().map(|l| FwdLink::new(*l, 20.0)).collect();
        f[0].next = 2;
        f[1].prev = 1;
        f[1].next = 3;
        f[2].prev = 2;
        f[3].next = 5;
        f[4].prev = 4;
        f[4].next = 6;
        f[5].prev = 5;
        f[1].lockout = vec![5];
        f[4].lockout = vec![2];
        v.push(finish("diamond", f, vec![("XW", vec![1]), ("XE", vec![3]), ("YW", vec![4]), ("YE", vec![6])], vec![(0, 1, true), (1, 0, false), (2, 3, true), (3, 2, false)]));
    }
    v
}

#[derive(Debug, Clone, Copy, Serialize, Deserialize, PartialEq, Eq, Hash)]
pub struct TrainDesc {
    /// index into topo.ods
    pub od: usize,
    /// departure time, s
    pub dep: u32,
    /// false: 360 m (20 cars), true: 1080 m (60 cars)
    pub long: bool,
}

pub fn train_spec(long: bool) -> TrainSpec {
    if long {
        TrainSpec { n_loaded: 30, n_empty: 30, davis: false, mass_override: None, length_override: None, consist: 3 }
    } else {
        TrainSpec { n_loaded: 10, n_empty: 10, davis: false, mass_override: None, length_override: None, consist: 2 }
    }
}

pub fn origin_dest_links(t: &Topo, od: usize) -> (Vec<usize>, Vec<usize>) {
    let (o, d, east) = t.ods[od];
    if east {
        (t.terminals[o].1.clone(), t.terminals[d].1.clone())
    } else {
        (t.terminals[o].1.iter().map(|l| t.n_fwd + l).collect(), t.terminals[d].1.iter().map(|l| t.n_fwd + l).collect())
    }
}

pub fn make_sim(t: &Topo, d: &TrainDesc, id: usize) -> Result<SpeedLimitTrainSim, String> {
    let (o, de) = origin_dest_links(t, d.od);
    let lm = location_map(&[("ORIG", o), ("DEST", de)]);
    let mut b = builder(&train_spec(d.long), Some(("ORIG", "DEST")), Some(InitTrainState::new(Some(d.dep as f64 * uc::S), None, None)), None);
    b.train_id = format!("T{id}");
    b.make_speed_limit_train_sim(&lm, None, None, None).map_err(|e| format!("{e:#}"))
}

#[derive(Default)]
pub struct EstCache {
    pub map: HashMap<(usize, TrainDesc), Result<EstTimeNet, String>>,
    pub built: u64,
}

impl EstCache {
    pub fn get(&mut self, ti: usize, t: &Topo, d: &TrainDesc) -> Result<EstTimeNet, String> {
        if let Some(r) = self.map.get(&(ti, *d)) {
            return r.clone();
        }
        let r = match make_sim(t, d, 0) {
            Err(e) => Err(e),
            Ok(sim) => match crate::engine::guarded(|| make_est_times(sim, &t.net.0)) {
                Ok(Ok((n, _))) => Ok(n),
                Ok(Err(e)) => Err(format!("{e:#}")),
                Err(p) => Err(format!("PANIC: {p}")),
            },
        };
        self.built += 1;
        self.map.insert((ti, *d), r.clone());
        r
    }
}
