//! TRAIN domain: rail vehicles, train configs, consists, builders (DESIGN §2).
use altrios_core::consist::locomotive::Locomotive;
use altrios_core::consist::{Consist, PowerDistributionControlType, Proportional, RESGreedy};
use altrios_core::track::{Location, LocationMap, TrainType};
use altrios_core::train::{InitTrainState, RailVehicle, TrainConfig, TrainSimBuilder};
use altrios_core::uc;
use serde::{Deserialize, Serialize};
use std::collections::HashMap;

#[derive(Debug, Clone, Copy, Serialize, Deserialize, PartialEq)]
pub struct TrainSpec {
    pub n_loaded: u32,
    pub n_empty: u32,
    /// make the two car types differ in every per-car attribute that is aggregated over the train: the empty cars get
    /// a non-zero Davis-B coefficient (the shipped vehicles have 0), 6 axles instead of 4, another bearing resistance
    /// and rotating mass per axle, another rolling ratio, length and brake count
    pub davis: bool,
    pub mass_override: Option<f64>,
    pub length_override: Option<f64>,
    /// 0: 1 conv, 1: 1 BEL, 2: conv+BEL, 3: shipped 5-unit default, 4: three mixed units (Proportional),
    /// 5: hybrid + conv (RESGreedy), 6: hybrid + BEL + conv (Proportional),
    /// 7: re-marshalled: built from two conventional units, then given conv + BEL + hybrid through the public set_loco_vec
    pub consist: u8,
    /// drag area given per car through `TrainConfig.cd_area_vec` (4.0, 4.1, 4.2, ... m^2 along the train) instead of being
    /// taken from the rail vehicles
    #[serde(default)]
    pub cd_vec: bool,
}

pub fn cd_area_vec(s: &TrainSpec) -> Option<Vec<f64>> {
    if s.cd_vec {
        Some((0..(s.n_loaded + s.n_empty)).map(|k| 4.0 + 0.1 * k as f64).collect())
    } else {
        None
    }
}

pub fn manifest(loaded: bool, davis: bool) -> RailVehicle {
    let odd = davis && !loaded;
    RailVehicle {
        car_type: if loaded { "Manifest_Loaded".into() } else { "Manifest_Empty".into() },
        length: if odd { 22.0 } else { 18.0 } * uc::M,
        axle_count: if odd { 6 } else { 4 },
        brake_count: if odd { 2 } else { 1 },
        mass_static_base: 28500.0 * uc::KG,
        mass_freight: if loaded { 101500.0 } else { 0.0 } * uc::KG,
        speed_max: 20.0 * uc::MPS,
        braking_ratio: if loaded { 0.11 } else { 0.25 } * uc::R,
        mass_rot_per_axle: if odd { 600.0 } else { 750.0 } * uc::KG,
        bearing_res_per_axle: if odd { 55.4 } else { 40.26 } * uc::N,
        rolling_ratio: if odd { 0.0019 } else { 0.001546 } * uc::R,
        davis_b: if davis && !loaded { 3.4e-5 } else { 0.0 } * uc::SPM,
        cd_area: if loaded { 4.087 } else { 1.231 } * uc::M2,
        curve_coeff_0: 0.056 * uc::R,
        curve_coeff_1: 0.4387579 * uc::R,
        curve_coeff_2: 0.01025485 * uc::R,
    }
}

pub fn rail_vehicles(s: &TrainSpec) -> Vec<RailVehicle> {
    let mut v = vec![];
    if s.n_loaded > 0 {
        v.push(manifest(true, s.davis));
    }
    if s.n_empty > 0 {
        v.push(manifest(false, s.davis));
    }
    v
}

pub fn train_config(s: &TrainSpec) -> TrainConfig {
    let rvs = rail_vehicles(s);
    let mut n: HashMap<String, u32> = HashMap::new();
    if s.n_loaded > 0 {
        n.insert("Manifest_Loaded".into(), s.n_loaded);
    }
    if s.n_empty > 0 {
        n.insert("Manifest_Empty".into(), s.n_empty);
    }
    TrainConfig::new(rvs, n, TrainType::Freight, s.length_override.map(|x| x * uc::M), s.mass_override.map(|x| x * uc::KG), cd_area_vec(s).map(|v| v.into_iter().map(|x| x * uc::M2).collect())).expect("train config")
}

pub fn consist(kind: u8, save_interval: Option<usize>) -> Consist {
    let conv = || Locomotive::default();
    let bel = || Locomotive::default_battery_electric_loco();
    // hybrid with a half-full battery (the shipped default cannot absorb any regeneration at its initial SOC)
    let hyb = || {
        let mut h = Locomotive::default_hybrid_electric_loco();
        if let Some(r) = h.reversible_energy_storage_mut() {
            r.state.soc = 0.5 * uc::R;
        }
        h
    };
    match kind {
        0 => Consist::new(vec![conv()], save_interval, PowerDistributionControlType::RESGreedy(RESGreedy)),
        1 => Consist::new(vec![bel()], save_interval, PowerDistributionControlType::RESGreedy(RESGreedy)),
        2 => Consist::new(vec![conv(), bel()], save_interval, PowerDistributionControlType::RESGreedy(RESGreedy)),
        3 => {
            let mut c = Consist::default();
            c.set_save_interval(save_interval);
            c
        }
        5 => Consist::new(vec![hyb(), conv()], save_interval, PowerDistributionControlType::RESGreedy(RESGreedy)),
        6 => Consist::new(vec![hyb(), bel(), conv()], save_interval, PowerDistributionControlType::Proportional(Proportional)),
        7 => {
            let mut c = Consist::new(vec![conv(), conv()], save_interval, PowerDistributionControlType::RESGreedy(RESGreedy));
            // a consist whose make-up is changed after construction (caches filled for the old make-up)
            let _ = altrios_core::traits::Mass::mass(&c);
            let _ = c.get_energy_fuel();
            c.set_loco_vec(vec![conv(), bel(), hyb()]);
            c.set_save_interval(save_interval);
            c
        }
        _ => {
            let mut b = bel();
            if let Some(r) = b.reversible_energy_storage_mut() {
                r.state.soc = 0.5 * uc::R;
            }
            Consist::new(vec![conv(), b, conv()], save_interval, PowerDistributionControlType::Proportional(Proportional))
        }
    }
}

pub fn builder(s: &TrainSpec, od: Option<(&str, &str)>, init: Option<InitTrainState>, save_interval: Option<usize>) -> TrainSimBuilder {
    TrainSimBuilder::new(
        format!("train-{}-{}-{}", s.n_loaded, s.n_empty, s.consist),
        train_config(s),
        consist(s.consist, save_interval),
        od.map(|x| x.0.to_string()),
        od.map(|x| x.1.to_string()),
        init,
    )
}

pub fn location(name: &str, link_idx: usize) -> Location {
    Location {
        location_id: name.to_string(),
        offset: 0.0 * uc::M,
        link_idx: crate::domain::net::lidx(link_idx),
        is_front_end: false,
        grid_emissions_region: String::new(),
        electricity_price_region: String::new(),
        liquid_fuel_price_region: String::new(),
    }
}

pub fn location_map(entries: &[(&str, Vec<usize>)]) -> LocationMap {
    let mut m = LocationMap::default();
    for (name, links) in entries {
        m.insert(name.to_string(), links.iter().map(|l| location(name, *l)).collect());
    }
    m
}

/// independent recomputation of the aggregated train parameters from the rail vehicles
pub struct TrainRef {
    pub towed_mass: f64,
    pub length: f64,
    pub mass_rot: f64,
    pub mass_freight: f64,
    pub bearing: f64,
    pub rolling_ratio: f64,
    pub davis_b: f64,
    pub cd_area: f64,
    pub axles: u32,
    pub cars: u32,
}
pub fn train_ref(s: &TrainSpec) -> TrainRef {
    let mut t = TrainRef { towed_mass: 0.0, length: 0.0, mass_rot: 0.0, mass_freight: 0.0, bearing: 0.0, rolling_ratio: 0.0, davis_b: 0.0, cd_area: 0.0, axles: 0, cars: 0 };
    let cars = [(true, s.n_loaded), (false, s.n_empty)];
    let mut sum_mass = 0.0;
    for (loaded, n) in cars {
        if n == 0 {
            continue;
        }
        let rv = manifest(loaded, s.davis);
        let m = rv.mass_static_base.value + rv.mass_freight.value;
        sum_mass += m * n as f64;
        t.length += rv.length.value * n as f64;
        t.mass_rot += rv.mass_rot_per_axle.value * rv.axle_count as f64 * n as f64;
        t.mass_freight += rv.mass_freight.value * n as f64;
        t.bearing += rv.bearing_res_per_axle.value * rv.axle_count as f64 * n as f64;
        t.cd_area += rv.cd_area.value * n as f64;
        t.axles += rv.axle_count as u32 * n;
        t.cars += n;
    }
    if let Some(v) = cd_area_vec(s) {
        // documented: "the total drag area ... calculated from this vector is the sum of these coefficients"
        t.cd_area = v.iter().sum();
    }
    t.towed_mass = s.mass_override.unwrap_or(sum_mass);
    if let Some(l) = s.length_override {
        t.length = l;
    }
    for (loaded, n) in cars {
        if n == 0 {
            continue;
        }
        let rv = manifest(loaded, s.davis);
        let m = rv.mass_static_base.value + rv.mass_freight.value;
        // mass-averaged over the towed mass (the builder's documented aggregation)
        t.rolling_ratio += rv.rolling_ratio.value * m * n as f64 / t.towed_mass;
        t.davis_b += rv.davis_b.value * m * n as f64 / t.towed_mass;
    }
    t
}
