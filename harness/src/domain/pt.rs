//! PT domain: powertrain configurations (DESIGN §2) built through public constructors / fields.
use altrios_core::consist::locomotive::powertrain::electric_drivetrain::ElectricDrivetrain;
use altrios_core::consist::locomotive::powertrain::fuel_converter::FuelConverter;
use altrios_core::consist::locomotive::powertrain::generator::Generator;
use altrios_core::consist::locomotive::powertrain::reversible_energy_storage::ReversibleEnergyStorage;
use altrios_core::consist::locomotive::{LocoParams, Locomotive};
use altrios_core::consist::{Consist, PowerDistributionControlType, Proportional, RESGreedy};
use altrios_core::uc;
use serde::{Deserialize, Serialize};

#[derive(Serialize, Deserialize, Clone, Copy, Debug, PartialEq)]
pub struct FcCfg {
    /// 0 shipped Tier-4 map, 1 flat 0.40, 2 extreme [0,.5,1]->[.05,1.0,.30]
    pub map: u8,
    pub rating: f64,
    pub lag: f64,
    /// pwr_out_max_init as a fraction of rating (0 => the rating/10 floor applies)
    pub init_frac: f64,
    pub idle: bool,
}
#[derive(Serialize, Deserialize, Clone, Copy, Debug, PartialEq)]
pub struct GenCfg {
    /// 0 shipped flat .98, 1 rising .6->.95, 2 falling .95->.6
    pub eta: u8,
    pub rating: f64,
}
#[derive(Serialize, Deserialize, Clone, Copy, Debug, PartialEq)]
pub struct EdrvCfg {
    /// 0 shipped flat .989, 1 [0,1]->[.9,.8]
    pub eta: u8,
    pub rating: f64,
}
#[derive(Serialize, Deserialize, Clone, Copy, Debug, PartialEq)]
pub struct ResCfg {
    /// 0 shipped map E=8.64 GJ, 1 small pack (E = P*200 s) flat .90, 2 small pack corners 1.0/.66
    pub map: u8,
    /// 0: (.05,.95) default ramps, 1: (.2,.8) ramps .3/.7
    pub window: u8,
    /// 0 min, 1 mid-ramp-lo, 2 ramp-lo, 3 0.5, 4 ramp-hi, 5 max, 6 mid-ramp-hi
    pub soc: u8,
    /// 0 below grid, 1 inside, 2 above
    pub temp: u8,
}
#[derive(Serialize, Deserialize, Clone, Copy, Debug, PartialEq)]
pub struct AuxCfg {
    pub offset: f64,
    pub coeff: f64,
}
#[derive(Serialize, Deserialize, Clone, Copy, Debug, PartialEq)]
pub enum LocoCfg {
    Conv { fc: FcCfg, gen: GenCfg, edrv: EdrvCfg, aux: AuxCfg },
    Bel { res: ResCfg, edrv: EdrvCfg, aux: AuxCfg },
    /// hybrid: engine + generator and battery feeding one drivetrain (C08 only: C01/C09/C10 are stated for
    /// conventional and battery-electric units)
    Hyb { fc: FcCfg, gen: GenCfg, res: ResCfg, edrv: EdrvCfg, aux: AuxCfg },
}

pub const FC0: FcCfg = FcCfg { map: 0, rating: 3.356e6, lag: 25.0, init_frac: 0.0, idle: true };
pub const GEN0: GenCfg = GenCfg { eta: 0, rating: 5.0e6 };
pub const EDRV0: EdrvCfg = EdrvCfg { eta: 0, rating: 5.0e6 };
pub const RES0: ResCfg = ResCfg { map: 0, window: 0, soc: 3, temp: 1 };
pub const AUX0: AuxCfg = AuxCfg { offset: 8554.15, coeff: 0.000539638 };
pub const RES_P: f64 = 3.281e6;

pub fn build_fc(c: &FcCfg) -> FuelConverter {
    let mut fc = FuelConverter::default();
    match c.map {
        0 => {}
        1 => {
            fc.pwr_out_frac_interp = vec![0.0, 1.0];
            fc.eta_interp = vec![0.40, 0.40];
        }
        _ => {
            fc.pwr_out_frac_interp = vec![0.0, 0.5, 1.0];
            fc.eta_interp = vec![0.05, 1.0, 0.30];
        }
    }
    fc.pwr_out_max = c.rating * uc::W;
    fc.pwr_ramp_lag = c.lag * uc::S;
    fc.pwr_out_max_init = c.init_frac * c.rating * uc::W;
    if !c.idle {
        fc.pwr_idle_fuel = 0.0 * uc::W;
    }
    fc.save_interval = None;
    fc
}
pub fn build_gen(c: &GenCfg) -> Generator {
    let eta = match c.eta {
        0 => vec![9.79976718e-01, 9.79976718e-01],
        1 => vec![0.6, 0.95],
        _ => vec![0.95, 0.6],
    };
    Generator::new(vec![0.0, 1.0], eta, c.rating, None).expect("generator variant")
}
pub fn build_edrv(c: &EdrvCfg) -> ElectricDrivetrain {
    let eta = match c.eta {
        0 => vec![9.89123465e-01, 9.89123465e-01],
        _ => vec![0.9, 0.8],
    };
    ElectricDrivetrain::new(vec![0.0, 1.0], eta, c.rating, None).expect("edrv variant")
}
pub fn res_window(c: &ResCfg) -> (f64, f64, f64, f64) {
    // (min, lo_ramp, hi_ramp, max)
    match c.window {
        0 => (0.05, 0.10, 0.90, 0.95),
        _ => (0.2, 0.3, 0.7, 0.8),
    }
}
pub fn build_res(c: &ResCfg) -> ReversibleEnergyStorage {
    let mut res = ReversibleEnergyStorage::default();
    match c.map {
        0 => {}
        1 => {
            res.energy_capacity = RES_P * 200.0 * uc::J;
            res.eta_interp_grid = [vec![23.0, 55.0], vec![0.0, 1.0], vec![-5.0, 5.0]];
            res.eta_interp_values = vec![vec![vec![0.90, 0.90], vec![0.90, 0.90]], vec![vec![0.90, 0.90], vec![0.90, 0.90]]];
        }
        _ => {
            res.energy_capacity = RES_P * 200.0 * uc::J;
            res.eta_interp_grid = [vec![23.0, 55.0], vec![0.0, 1.0], vec![-5.0, 5.0]];
            res.eta_interp_values = vec![vec![vec![1.0, 0.66], vec![0.66, 1.0]], vec![vec![0.66, 1.0], vec![1.0, 0.66]]];
        }
    }
    let (mn, lo, hi, mx) = res_window(c);
    res.min_soc = mn * uc::R;
    res.max_soc = mx * uc::R;
    if c.window != 0 {
        res.soc_lo_ramp_start = Some(lo * uc::R);
        res.soc_hi_ramp_start = Some(hi * uc::R);
    }
    let soc = match c.soc {
        0 => mn,
        1 => 0.5 * (mn + lo),
        2 => lo,
        3 => 0.5,
        4 => hi,
        5 => mx,
        _ => 0.5 * (hi + mx),
    };
    res.state.soc = soc * uc::R;
    res.state.temperature_celsius = match c.temp {
        0 => 10.0,
        1 => 40.0,
        _ => 70.0,
    };
    res.save_interval = None;
    res
}

pub fn build_loco(c: &LocoCfg) -> Locomotive {
    match c {
        LocoCfg::Conv { fc, gen, edrv, aux } => {
            let mut l = Locomotive::default();
            l.set_fuel_converter(build_fc(fc)).unwrap();
            l.set_generator(build_gen(gen)).unwrap();
            l.set_electric_drivetrain(build_edrv(edrv)).unwrap();
            l.pwr_aux_offset = aux.offset * uc::W;
            l.pwr_aux_traction_coeff = aux.coeff * uc::R;
            l.set_save_interval(None);
            l
        }
        LocoCfg::Bel { res, edrv, aux } => {
            let mut l = Locomotive::build_battery_electric_loco(
                build_res(res),
                build_edrv(edrv),
                LocoParams { pwr_aux_offset: aux.offset * uc::W, pwr_aux_traction_coeff: aux.coeff * uc::R, force_max: 667.2e3 * uc::N, mass: Some(194.6e3 * uc::KG) },
                None,
            )
            .unwrap();
            l.set_save_interval(None);
            l
        }
        LocoCfg::Hyb { fc, gen, res, edrv, aux } => {
            let mut l = Locomotive::default_hybrid_electric_loco();
            l.set_fuel_converter(build_fc(fc)).unwrap();
            l.set_generator(build_gen(gen)).unwrap();
            l.set_reversible_energy_storage(build_res(res)).unwrap();
            l.set_electric_drivetrain(build_edrv(edrv)).unwrap();
            l.pwr_aux_offset = aux.offset * uc::W;
            l.pwr_aux_traction_coeff = aux.coeff * uc::R;
            l.set_save_interval(None);
            l
        }
    }
}

/// hybrid configurations (C08): shipped components at four SOC points, the small pack, a slow small engine
pub fn hyb_configs(thorough: bool) -> Vec<LocoCfg> {
    let mut v = vec![
        LocoCfg::Hyb { fc: FC0, gen: GEN0, res: RES0, edrv: EDRV0, aux: AUX0 },
        LocoCfg::Hyb { fc: FC0, gen: GEN0, res: ResCfg { map: 1, soc: 1, ..RES0 }, edrv: EDRV0, aux: AUX0 },
        LocoCfg::Hyb { fc: FcCfg { rating: 1.0e6, lag: 5.0, ..FC0 }, gen: GEN0, res: ResCfg { map: 1, soc: 6, ..RES0 }, edrv: EDRV0, aux: AUX0 },
    ];
    if thorough {
        v.push(LocoCfg::Hyb { fc: FcCfg { map: 1, ..FC0 }, gen: GenCfg { eta: 1, ..GEN0 }, res: ResCfg { map: 1, soc: 3, ..RES0 }, edrv: EdrvCfg { eta: 1, ..EDRV0 }, aux: AUX0 });
        v.push(LocoCfg::Hyb { fc: FC0, gen: GEN0, res: ResCfg { map: 1, soc: 5, ..RES0 }, edrv: EdrvCfg { rating: 2.0e6, ..EDRV0 }, aux: AUX0 });
        v.push(LocoCfg::Hyb { fc: FC0, gen: GEN0, res: ResCfg { map: 1, soc: 0, ..RES0 }, edrv: EDRV0, aux: AUX0 });
    }
    v
}

pub fn pdct(res_greedy: bool) -> PowerDistributionControlType {
    if res_greedy {
        PowerDistributionControlType::RESGreedy(RESGreedy)
    } else {
        PowerDistributionControlType::Proportional(Proportional)
    }
}

#[derive(Serialize, Deserialize, Clone, Debug, PartialEq)]
pub struct ConsistCfg {
    pub units: Vec<LocoCfg>,
    pub res_greedy: bool,
}
pub fn build_consist(c: &ConsistCfg) -> Consist {
    let locos: Vec<Locomotive> = c.units.iter().map(build_loco).collect();
    Consist::new(locos, None, pdct(c.res_greedy))
}

/// "star" design: every variant once against the shipped defaults, plus pairs touching a binding rating
pub fn conv_configs(thorough: bool) -> Vec<LocoCfg> {
    let mut v = vec![];
    let fcs: Vec<FcCfg> = {
        let mut f = vec![FC0];
        f.push(FcCfg { map: 1, ..FC0 });
        f.push(FcCfg { map: 2, ..FC0 });
        f.push(FcCfg { rating: 1.0e6, ..FC0 });
        f.push(FcCfg { lag: 5.0, ..FC0 });
        f.push(FcCfg { lag: 0.5, ..FC0 });
        f.push(FcCfg { init_frac: 0.5, ..FC0 });
        f.push(FcCfg { idle: false, ..FC0 });
        f
    };
    let gens = vec![GEN0, GenCfg { eta: 1, ..GEN0 }, GenCfg { eta: 2, ..GEN0 }, GenCfg { rating: 3.0e6, ..GEN0 }];
    let edrvs = vec![EDRV0, EdrvCfg { eta: 1, ..EDRV0 }, EdrvCfg { rating: 2.0e6, ..EDRV0 }];
    let auxs = vec![AUX0, AuxCfg { offset: 0.0, coeff: 0.0 }, AuxCfg { offset: 100e3, coeff: 0.000539638 }, AuxCfg { offset: 8554.15, coeff: 0.0 }];
    if thorough {
        // full product of FC x GEN x EDRV with the default aux, plus aux star
        for fc in &fcs {
            for gen in &gens {
                for edrv in &edrvs {
                    v.push(LocoCfg::Conv { fc: *fc, gen: *gen, edrv: *edrv, aux: AUX0 });
                }
            }
        }
        for aux in &auxs[1..] {
            v.push(LocoCfg::Conv { fc: FC0, gen: GEN0, edrv: EDRV0, aux: *aux });
            v.push(LocoCfg::Conv { fc: FcCfg { lag: 0.5, ..FC0 }, gen: GenCfg { rating: 3.0e6, ..GEN0 }, edrv: EdrvCfg { rating: 2.0e6, ..EDRV0 }, aux: *aux });
        }
    } else {
        for fc in &fcs {
            v.push(LocoCfg::Conv { fc: *fc, gen: GEN0, edrv: EDRV0, aux: AUX0 });
        }
        for gen in &gens[1..] {
            v.push(LocoCfg::Conv { fc: FC0, gen: *gen, edrv: EDRV0, aux: AUX0 });
        }
        for edrv in &edrvs[1..] {
            v.push(LocoCfg::Conv { fc: FC0, gen: GEN0, edrv: *edrv, aux: AUX0 });
        }
        for aux in &auxs[1..] {
            v.push(LocoCfg::Conv { fc: FC0, gen: GEN0, edrv: EDRV0, aux: *aux });
        }
        // pairs touching a binding rating
        v.push(LocoCfg::Conv { fc: FcCfg { lag: 0.5, ..FC0 }, gen: GenCfg { rating: 3.0e6, ..GEN0 }, edrv: EDRV0, aux: AUX0 });
        v.push(LocoCfg::Conv { fc: FcCfg { lag: 0.5, ..FC0 }, gen: GEN0, edrv: EdrvCfg { rating: 2.0e6, ..EDRV0 }, aux: AUX0 });
        v.push(LocoCfg::Conv { fc: FcCfg { lag: 0.5, map: 2, ..FC0 }, gen: GenCfg { eta: 2, rating: 3.0e6 }, edrv: EdrvCfg { eta: 1, rating: 2.0e6 }, aux: AuxCfg { offset: 100e3, coeff: 0.000539638 } });
    }
    v
}

pub fn bel_configs(thorough: bool) -> Vec<LocoCfg> {
    let mut v = vec![];
    let edrvs = vec![EDRV0, EdrvCfg { eta: 1, ..EDRV0 }, EdrvCfg { rating: 2.0e6, ..EDRV0 }];
    let auxs = vec![AUX0, AuxCfg { offset: 0.0, coeff: 0.0 }, AuxCfg { offset: 100e3, coeff: 0.000539638 }];
    if thorough {
        for map in 0..3u8 {
            for window in 0..2u8 {
                for soc in 0..7u8 {
                    for temp in 0..3u8 {
                        if temp != 1 && map == 1 {
                            continue; // flat map: temperature cannot matter
                        }
                        for edrv in &edrvs {
                            v.push(LocoCfg::Bel { res: ResCfg { map, window, soc, temp }, edrv: *edrv, aux: AUX0 });
                        }
                    }
                }
            }
        }
        for aux in &auxs[1..] {
            for soc in [0u8, 1, 3, 5] {
                v.push(LocoCfg::Bel { res: ResCfg { soc, map: 1, ..RES0 }, edrv: EDRV0, aux: *aux });
            }
        }
    } else {
        for soc in 0..7u8 {
            v.push(LocoCfg::Bel { res: ResCfg { soc, ..RES0 }, edrv: EDRV0, aux: AUX0 });
            v.push(LocoCfg::Bel { res: ResCfg { soc, map: 1, ..RES0 }, edrv: EDRV0, aux: AUX0 });
        }
        v.push(LocoCfg::Bel { res: ResCfg { map: 2, ..RES0 }, edrv: EDRV0, aux: AUX0 });
        v.push(LocoCfg::Bel { res: ResCfg { map: 2, soc: 1, ..RES0 }, edrv: EDRV0, aux: AUX0 });
        for soc in [0u8, 1, 4, 5, 6] {
            v.push(LocoCfg::Bel { res: ResCfg { window: 1, map: 1, soc, temp: 1 }, edrv: EDRV0, aux: AUX0 });
        }
        v.push(LocoCfg::Bel { res: ResCfg { temp: 0, ..RES0 }, edrv: EDRV0, aux: AUX0 });
        v.push(LocoCfg::Bel { res: ResCfg { temp: 2, ..RES0 }, edrv: EDRV0, aux: AUX0 });
        for edrv in &edrvs[1..] {
            v.push(LocoCfg::Bel { res: RES0, edrv: *edrv, aux: AUX0 });
            v.push(LocoCfg::Bel { res: ResCfg { map: 1, soc: 6, ..RES0 }, edrv: *edrv, aux: AUX0 });
        }
        for aux in &auxs[1..] {
            v.push(LocoCfg::Bel { res: RES0, edrv: EDRV0, aux: *aux });
            v.push(LocoCfg::Bel { res: ResCfg { map: 1, soc: 1, ..RES0 }, edrv: EDRV0, aux: *aux });
        }
    }
    v
}

/// unit variants for consist compositions
pub fn consist_unit(kind: u8) -> LocoCfg {
    match kind {
        0 => LocoCfg::Conv { fc: FC0, gen: GEN0, edrv: EDRV0, aux: AUX0 },                                   // conv 3.4 MW
        1 => LocoCfg::Conv { fc: FcCfg { rating: 1.0e6, lag: 5.0, ..FC0 }, gen: GEN0, edrv: EDRV0, aux: AUX0 }, // conv 1 MW
        2 => LocoCfg::Bel { res: ResCfg { map: 1, soc: 3, ..RES0 }, edrv: EDRV0, aux: AUX0 },                  // BEL mid SOC (small pack)
        3 => LocoCfg::Bel { res: ResCfg { map: 1, soc: 1, ..RES0 }, edrv: EDRV0, aux: AUX0 },                  // BEL in the low derating ramp
        4 => LocoCfg::Bel { res: ResCfg { map: 1, soc: 6, ..RES0 }, edrv: EDRV0, aux: AUX0 },                  // BEL in the high derating ramp
        5 => LocoCfg::Bel { res: ResCfg { map: 1, soc: 0, ..RES0 }, edrv: EDRV0, aux: AUX0 },                  // BEL at min SOC
        6 => LocoCfg::Bel { res: ResCfg { map: 0, soc: 3, ..RES0 }, edrv: EdrvCfg { rating: 2.0e6, ..EDRV0 }, aux: AUX0 }, // BEL shipped pack, 2 MW drivetrain
        _ => LocoCfg::Bel { res: ResCfg { map: 1, soc: 5, ..RES0 }, edrv: EDRV0, aux: AUX0 },                  // BEL at max SOC
    }
}
